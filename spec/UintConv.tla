------------------------------- MODULE UintConv -------------------------------
(***************************************************************************)
(* Layer 1: from.rs (integer, Uint-to-Uint), lib.rs (limb slices,          *)
(* constants).  A machine integer is logged as <<negative?, magnitude>>.   *)
(***************************************************************************)
EXTENDS UintBits

\* width and signedness of the primitive types
TyBits(t) == CASE t = "bool" -> 1 [] t = "u8" -> 8 [] t = "i8" -> 8 [] t = "u16" -> 16 [] t = "i16" -> 16
               [] t = "u32" -> 32 [] t = "i32" -> 32 [] t = "u64" -> 64 [] t = "i64" -> 64
               [] t = "usize" -> 64 [] t = "isize" -> 64 [] t = "u128" -> 128 [] t = "i128" -> 128
TySigned(t) == t \in {"i8", "i16", "i32", "i64", "i128", "isize"}

(* integer -> Uint.  v is the magnitude, sg the sign.                       *)
(*   0 <= value < 2^n        : Ok(value)                                    *)
(*   value >= 2^n            : ValueTooLarge, wrapped payload = v mod 2^n   *)
(*   value < 0               : ValueNegative; the wrapped payload is        *)
(*        value mod 2^n whenever n <= width(T); otherwise the property      *)
(*        leaves it open (it must still be a canonical value).              *)
CheckFromInt(e) ==
  LET n == e.bits  v == e.v  w == TyBits(e.t)
      negative == e.sg /\ ~IsZero(v)
      fits == Lt2(v, n)
      wrapneg == Mod2(Sub(Pow2(w), v), n)              \* (2^w - v) mod 2^n = value mod 2^n when n <= w
      PayloadOK(p) == Lt2(p, n) /\ (n <= w => p = wrapneg)
  IN IF negative THEN
       [ try  |-> Has(e, "try") /\ e.try[1] = "neg" /\ PayloadOK(e.try[2]),
         wr   |-> Has(e, "wr") /\ PayloadOK(e.wr) /\ (Has(e, "try") => e.wr = e.try[2]),
         sat  |-> Eq(e, "sat", Zero),
         from |-> Panics(e, "from") ]
     ELSE IF fits THEN
       [ try |-> Eq(e, "try", <<"ok", v>>), wr |-> Eq(e, "wr", v),
         sat |-> Eq(e, "sat", v), from |-> Eq(e, "from", v) ]
     ELSE
       [ try |-> Eq(e, "try", <<"large", Mod2(v, n)>>), wr |-> Eq(e, "wr", Mod2(v, n)),
         sat |-> Eq(e, "sat", MaxU(n)), from |-> Panics(e, "from") ]

(* Uint -> integer.  Succeeds iff the value fits the target; the wrapping   *)
(* form is the value mod 2^w read as two's complement, the saturating form  *)
(* the target's maximum.                                                    *)
TwosComplement(m, w, signed) ==      \* m < 2^w
  IF signed /\ BitAt(m, w - 1) = 1 THEN <<TRUE, Sub(Pow2(w), m)>> ELSE <<FALSE, m>>

CheckToInt(e) ==
  LET a == e.a  t == e.t  w == TyBits(t)  signed == TySigned(t)
      cap == IF signed THEN w - 1 ELSE w
      fits == Lt2(a, cap)
      wrapped == TwosComplement(Mod2(a, w), w, signed)
      sat == <<FALSE, Ones(cap)>>
      val == <<FALSE, a>>
      res == IF fits THEN <<"ok", val>> ELSE <<"ovf", wrapped, sat>>
  IN [ try_r |-> Eq(e, "try_r", res), try_v |-> Eq(e, "try_v", res),
       to  |-> IF fits THEN Eq(e, "to", val) ELSE Panics(e, "to"),
       wto |-> Eq(e, "wto", IF fits THEN val ELSE wrapped),
       sto |-> Eq(e, "sto", IF fits THEN val ELSE sat) ]

\* limb slices: the value is SUM xs[i] * 2^(64(i-1))
LimbsVal(xs) == FoldR(LAMBDA x, acc : Add(Shl(acc, 64), x), xs, Zero)

CheckLimbs(e) ==
  LET n == e.bits  v == LimbsVal(e.xs)
      ovf == ~Lt2(v, n)
      wr == Mod2(v, n)
      nl == (n + 63) \div 64
  IN [ from |-> IF ovf THEN Panics(e, "from") ELSE Eq(e, "from", v),
       checked |-> Eq(e, "checked", Opt(ovf, v)),
       wrapping |-> Eq(e, "wrapping", wr),
       overflowing |-> Eq(e, "overflowing", <<wr, ovf>>),
       saturating |-> Eq(e, "saturating", IF ovf THEN MaxU(n) ELSE v),
       \* the asserting array constructor exists only for slices of exactly LIMBS limbs
       arr |-> IF Len(e.xs) # nl THEN ~Has(e, "arr")
               ELSE IF ovf THEN Panics(e, "arr") ELSE Eq(e, "arr", v),
       arr_into |-> IF Len(e.xs) # nl THEN ~Has(e, "arr_into")
                    ELSE IF ovf THEN Panics(e, "arr_into")
                    ELSE Has(e, "arr_into") /\ Len(e.arr_into) = 8 * nl /\ Norm(e.arr_into) = v ]

CheckConsts(e) ==
  LET n == e.bits IN
  [ zero |-> Eq(e, "zero", Zero), one |-> Eq(e, "one", Mod2(One, n)),
    min |-> Eq(e, "min", Zero), max |-> Eq(e, "max", MaxU(n)), default |-> Eq(e, "default", Zero),
    bits |-> Eq(e, "bits", n), limbs |-> Eq(e, "limbs", (n + 63) \div 64),
    bytes |-> Eq(e, "bytes", NBytes(n)), nlimbs |-> Eq(e, "nlimbs", (n + 63) \div 64),
    mask |-> Eq(e, "mask", IF n = 0 THEN Zero ELSE Ones(((n - 1) % 64) + 1)),
    maskf |-> Eq(e, "maskf", IF n = 0 THEN Zero ELSE Ones(((n - 1) % 64) + 1)) ]

\* Uint<bits> -> Uint<bits2>
CheckUU(e) ==
  LET a == e.a  n2 == e.bits2
      fits == Lt2(a, n2)
      wr == Mod2(a, n2)
  IN [ try  |-> Eq(e, "try", IF fits THEN <<"ok", a>> ELSE <<"large", wr>>),
       from |-> IF fits THEN Eq(e, "from", a) ELSE Panics(e, "from"),
       wr   |-> Eq(e, "wr", wr),
       sat  |-> Eq(e, "sat", IF fits THEN a ELSE MaxU(n2)),
       tryto |-> Eq(e, "tryto", IF fits THEN <<"ok", a>> ELSE <<"ovf", wr, MaxU(n2)>>),
       to   |-> IF fits THEN Eq(e, "to", a) ELSE Panics(e, "to"),
       wto  |-> Eq(e, "wto", wr),
       sto  |-> Eq(e, "sto", IF fits THEN a ELSE MaxU(n2)),
       from_uint |-> IF fits THEN Eq(e, "from_uint", a) ELSE Panics(e, "from_uint"),
       cfrom_uint |-> Eq(e, "cfrom_uint", IF fits THEN Some(a) ELSE None) ]

CheckConv(e) ==
  CASE e.op = "from_int" -> CheckFromInt(e)
    [] e.op = "to_int"   -> CheckToInt(e)
    [] e.op = "limbs"    -> CheckLimbs(e)
    [] e.op = "consts"   -> CheckConsts(e)
    [] e.op = "uu"       -> CheckUU(e)
    [] OTHER             -> [unknown_op |-> FALSE]
=============================================================================
