SPECIFICATION TSpec
CONSTANTS
  Widths = {}
  NReg = 4
  Exhaustive = FALSE
  MaxDepth = 0
  Focus = {}
POSTCONDITION TraceAccepted
CHECK_DEADLOCK FALSE
