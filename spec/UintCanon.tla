------------------------------ MODULE UintCanon ------------------------------
(***************************************************************************)
(* C04, the parts that are observed as events: random / arbitrary          *)
(* generators only yield canonical values; a Uint type whose LIMBS         *)
(* parameter differs from ceil(BITS / 64) has no obtainable value.         *)
(***************************************************************************)
EXTENDS Literal

AllCanonical(xs, n) == \A i \in 1..Len(xs) : Lt2(xs[i], n)

CheckGen(e) ==
  LET n == e.bits
      G(f) == Has(e, f) /\ AllCanonical(e[f], n)
  IN [ r8_std |-> G("r8_std") /\ Len(e.r8_std) = e.k, r8_bits |-> G("r8_bits"),
       r9_with |-> G("r9_with") /\ Len(e.r9_with) = e.k, r9_std |-> G("r9_std"), r9_rize |-> G("r9_rize"),
       r9_thread |-> G("r9_thread"),
       arb |-> G("arb"), arb_hint |-> Eq(e, "arb_hint", <<NBytes(n), Some(NBytes(n))>>),
       qc |-> G("qc") /\ Len(e.qc) = e.k,
       prop |-> G("prop") /\ Len(e.prop) = e.k, prop_bits |-> G("prop_bits"), prop_shrunk |-> G("prop_shrunk") ]

(* the same for the inherent methods of the rand-0.8 integration, which exist only in a build without the feature rand-09  *)
(* (observed through a second crate built with the feature `rand` alone); randomize overwrites whatever the value was       *)
CheckGen08(e) ==
  LET n == e.bits
      G(f) == Has(e, f) /\ AllCanonical(e[f], n) /\ Len(e[f]) = e.k
  IN [ r8o_with |-> G("r8o_with"), r8o_rize_max |-> G("r8o_rize_max"), r8o_rize_zero |-> G("r8o_rize_zero"),
       r8o_gen |-> G("r8o_gen"), r8o_thread |-> G("r8o_thread"), r8o_rize_thread |-> G("r8o_rize_thread") ]

WellFormed(bits, limbs) == limbs = (bits + 63) \div 64

(* A constructor / constant of Uint<bits, limbs>, compiled as a one-line   *)
(* probe program: outcome is "compile_error", "panic" or "obtained".       *)
CheckCtorProbe(e) ==
  [ uninhabited |-> (e.outcome = "obtained") => WellFormed(e.bits, e.limbs),
    \* vacuity control: every probe must yield a value for a well-formed type
    control |-> WellFormed(e.bits, e.limbs) => e.outcome = "obtained" ]

(* bytemuck::Pod lets safe code reinterpret ANY bytes as the type, so it may be implemented only where every bit pattern is   *)
(* canonical (no unused bits: BITS a multiple of 64); the probe reads all-ones bytes.                                         *)
CheckPodProbe(e) ==
  [ pod_only_without_unused_bits |-> (e.outcome = "obtained") => (e.bits % 64 = 0),
    control |-> (e.bits % 64 = 0 /\ e.bits > 0 /\ e.bits <= 1024) => e.outcome = "obtained" ]

CheckCanon(e) ==
  CASE e.op = "gen" -> CheckGen(e)
    [] e.op = "gen08" -> CheckGen08(e)
    [] e.op = "ctor_probe" -> CheckCtorProbe(e)
    [] e.op = "pod_probe" -> CheckPodProbe(e)
    [] OTHER -> [unknown_op |-> FALSE]
=============================================================================
