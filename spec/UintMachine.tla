----------------------------- MODULE UintMachine -----------------------------
(***************************************************************************)
(* The library as its users see it: a register file of Uint<BITS, LIMBS>   *)
(* values and one action per public operation.  The abstract state of a    *)
(* register is the number it denotes (a BigNat); every action is defined   *)
(* through the Layer-1 operators that the trace specification uses, so the *)
(* two directions of the conformance check share one meaning:              *)
(*                                                                         *)
(*  (B1) TLC explores this machine exhaustively at tiny widths; every      *)
(*       transition is emitted (obs) and replayed on the real code.        *)
(*  (B2) TLC -simulate produces histories at real widths; each history is  *)
(*       stepped through the real register file and the whole file is      *)
(*       compared after every step.                                        *)
(*                                                                         *)
(* Invariants: Canonical (C04: every register stays below 2^bits, i.e. the *)
(* canonical set is closed under every operation) and NativeOK (the        *)
(* BigNat-based actions agree with the plain integer statements of the     *)
(* properties, evaluated with TLC's native arithmetic at small widths).    *)
(***************************************************************************)
EXTENDS Literal, TLC, FiniteSets, Json

CONSTANTS Widths,      \* set of widths to explore
          NReg,        \* number of registers
          Exhaustive,  \* TRUE: registers start from every value of the width (tiny widths); FALSE: from Seeds
          MaxDepth,    \* histories are cut at this length (simulation) / 1 for the exhaustive exploration
          Focus        \* {} = every operation; otherwise simulate only these (aimed at the masking-sensitive ones)

VARIABLES bits, reg, obs, hist

vars == <<bits, reg, obs, hist>>
Reg == 1..NReg

\* all values of a tiny width, as BigNats
AllVals(n) == {FromNat(v) : v \in 0..(2^n - 1)}
\* seed values of a real width: the boundary classes of the generators
Seeds(n) == IF n = 0 THEN {Zero}
            ELSE {Zero, Mod2(One, n), Ones(n), Pow2(n - 1), Ones(n - 1), Mod2(Ones(64), n), Mod2(Pow2(64), n),
                  Mod2(Pow2(63), n), NotK(Mod2(Ones(64), n), n), Mod2(<<85, 85, 85, 85, 85, 85, 85, 85, 85, 170, 170, 1>>, n),
                  Mod2(<<3>>, n), Mod2(<<254, 255, 255, 255, 255, 255, 255, 255>>, n)}

ShiftAmts(n) == {0, 1, 7, 63, 64, 65, n \div 2} \cup {k \in {n - 1, n, n + 1, n + 64} : k >= 0}
SmallImm == {0, 1, 2, 3, 5}
RootImm == {0, 1, 2, 3}

\* ---- direct (non-witness) definitions used by the machine: the machine computes, the trace spec checks relations ----
RECURSIVE GcdBN(_, _)
GcdBN(a, b) == IF IsZero(b) THEN a ELSE GcdBN(b, DivMod(a, b)[2])
\* inverse of an odd a modulo 2^n by Newton iteration x <- x (2 - a x); each round doubles the number of correct bits
InvRingBN(a, n) ==
  LET rounds == [i \in 1..13 |-> i]
      two == Mod2(<<2>>, n)
  IN FoldL(LAMBDA x, i : WrapMul(x, WrapSub(two, WrapMul(a, x, n), n), n), Mod2(One, n), rounds)
\* floor(a^(1/d)), d >= 1, by bisection on r with the saturating power test PowGt
RootBN(a, d) ==
  IF IsZero(a) THEN Zero
  ELSE LET hi0 == Pow2((BitLen(a) \div d) + 1)                  \* r < hi0
           steps == [i \in 1..(BitLen(hi0) + 1) |-> i]
           st == FoldL(LAMBDA lohi, i :
                         IF Ge(AddSmall(lohi[1], 1), lohi[2]) THEN lohi
                         ELSE LET mid == Div2(Add(lohi[1], lohi[2]), 1)
                              IN IF PowGt(mid, FromNat(d), a) THEN <<lohi[1], mid>> ELSE <<mid, lohi[2]>>,
                       <<Zero, hi0>>, steps)
       IN st[1]

\* inverse of a modulo mm (mm >= 2) by the extended Euclidean algorithm with the cofactor kept reduced modulo mm:
\* invariant t_i * a = r_i (mod mm).  <<>> = no inverse.
SubModM(x, y, mm) == IF Ge(x, y) THEN Sub(x, y) ELSE Sub(Add(x, mm), y)
RECURSIVE EgcdT(_, _, _, _, _)
EgcdT(r0, r1, t0, t1, mm) ==
  IF IsZero(r1) THEN <<r0, t0>>
  ELSE LET qr == DivMod(r0, r1) IN EgcdT(r1, qr[2], t1, SubModM(t0, DivMod(Mul(qr[1], t1), mm)[2], mm), mm)
InvModBN(a, mm) == IF Le(mm, One) THEN <<>>
                   ELSE LET r == EgcdT(mm, DivMod(a, mm)[2], Zero, One, mm) IN IF r[1] = One THEN <<r[2]>> ELSE <<>>
\* floor(log_b a) for a >= 1, b >= 2, as a native number
LogBN(a, b) == LET RECURSIVE F(_, _)
                   F(p, k) == LET q == Mul(p, b) IN IF Gt(q, a) THEN k ELSE F(q, k + 1)
               IN F(One, 0)
NLimbs(n) == (n + 63) \div 64
Num(x, n) == Mod2(FromNat(x), n)                              \* U::wrapping_from(x as u64)

BinOps == {"wadd", "wsub", "wmul", "sadd", "ssub", "smul", "adiff", "and", "or", "xor", "min", "max", "gcd"}
FlagOps == {"oadd", "osub", "omul", "cmp", "lcm"}        \* write the value and leave a flag in obs
DivOps == {"div", "rem", "divceil"}                      \* need a non-zero second operand
UnOps == {"wneg", "not", "revbits", "lz", "tz", "popcount", "bitlen", "invring", "npow2",
          \* round trips through other representations: the register must come back unchanged (or reduced mod 2^64)
          "rt_dec", "rt_hex", "rt_be", "rt_le", "rt_limbs", "via_u64"}
ShiftOps == {"shl", "shr", "ashr", "rotl", "rotr", "oshl", "oshr"}
ImmOps == {"pow", "root", "setbit1", "setbit0", "load"}
ModOps == {"reduce", "addmod", "mulmod"}                  \* modulus = old value of the destination register
\* conversions through a Uint of ANOTHER width k and back (wrapping_to / saturating_to / uint_try_to)
ConvOps == {"wto", "sto", "cto"}
ConvT == {1, 3, 63, 65, 200}
MoreFlagOps == {"cnmo"}                                    \* checked_next_multiple_of: None leaves the register alone
MoreImmOps == {"powmod"}                                   \* a^k mod (old destination)
\* ---- second family (machine v2) --------------------------------------------------------------------------------------
\* checked forms (None leaves the register alone), modular inverse, logarithm to a register base, iterator folds over
\* <<a, b, old destination>>, Montgomery product modulo the old destination (a no-op outside its precondition)
ChkBinOps == {"cadd", "csub", "cmul", "cdiv", "crem", "invmod", "clog", "sum3", "prod3", "redc"}
\* bit queries written back as values, checked logarithms / negation, in-place resets (zeroize, num_traits::One::set_one)
QryOps == {"lo", "to", "cz", "bytelen", "msb", "clog2", "clog10", "cneg", "zeroize", "setone"}
\* round trips through the text forms not covered above, the Bits wrapper, num-bigint and every wire codec
CodecOps == {"rt_oct", "rt_bin", "rt_b36", "rt_bits", "rt_big", "rt_ssz", "rt_rlp", "rt_borsh", "rt_der", "rt_scale",
             "rt_compact", "rt_json", "rt_bincode"}
ChkShiftOps == {"cshl", "cshr", "sshl", "wshl", "wshr", "cbyte"}    \* immediate = amount / byte index
PowImmOps == {"cpow", "spow", "wpow"}
BaseOps == {"rt_base"}                                        \* to_base_le(k) then from_base_le(k, ..)
SelOps == {"ctsel"}                                           \* subtle::ConditionallySelectable, choice = k
BaseImm == {2, 3, 10, 16, 36, 255, 256, 65536, 2147483647}

\* <<value written to the destination, observation>>;  a, b operands, m old destination, k immediate, n width
Apply(op, a, b, m, k, n) ==
  CASE op = "wadd" -> <<WrapAdd(a, b, n), FALSE>>
    [] op = "wsub" -> <<WrapSub(a, b, n), FALSE>>
    [] op = "wmul" -> <<WrapMul(a, b, n), FALSE>>
    [] op = "sadd" -> <<SatAdd(a, b, n), FALSE>>
    [] op = "ssub" -> <<SatSub(a, b), FALSE>>
    [] op = "smul" -> <<IF MulOverflows(a, b, n) THEN MaxU(n) ELSE Mul(a, b), FALSE>>
    [] op = "adiff" -> <<AbsDiff(a, b), FALSE>>
    [] op = "and" -> <<BAnd(a, b), FALSE>>
    [] op = "or" -> <<BOr(a, b), FALSE>>
    [] op = "xor" -> <<BXor(a, b), FALSE>>
    [] op = "min" -> <<IF Le(a, b) THEN a ELSE b, FALSE>>
    [] op = "max" -> <<IF Ge(a, b) THEN a ELSE b, FALSE>>
    [] op = "gcd" -> <<GcdBN(a, b), FALSE>>
    [] op = "oadd" -> <<WrapAdd(a, b, n), AddOverflows(a, b, n)>>
    [] op = "osub" -> <<WrapSub(a, b, n), SubOverflows(a, b)>>
    [] op = "omul" -> <<WrapMul(a, b, n), MulOverflows(a, b, n)>>
    [] op = "cmp" -> <<a, Lt(a, b)>>
    [] op = "lcm" -> LET l == IF IsZero(a) \/ IsZero(b) THEN Zero ELSE Mul(DivMod(a, GcdBN(a, b))[1], b)
                     IN IF Lt2(l, n) THEN <<l, TRUE>> ELSE <<m, FALSE>>       \* None leaves the register alone
    [] op = "div" -> <<DivMod(a, b)[1], FALSE>>
    [] op = "rem" -> <<DivMod(a, b)[2], FALSE>>
    [] op = "divceil" -> LET qr == DivMod(a, b) IN <<CeilOf(qr[1], qr[2]), FALSE>>
    [] op = "wneg" -> <<WrapNeg(a, n), NegOverflows(a)>>
    [] op = "not" -> <<NotK(a, n), FALSE>>
    [] op = "revbits" -> <<ReverseBits(a, n), FALSE>>
    [] op = "lz" -> <<Mod2(FromNat(LeadingZeros(a, n)), n), FALSE>>
    [] op = "tz" -> <<Mod2(FromNat(TrailingZerosN(a, n)), n), FALSE>>
    [] op = "popcount" -> <<Mod2(FromNat(PopCount(a)), n), FALSE>>
    [] op = "bitlen" -> <<Mod2(FromNat(BitLen(a)), n), FALSE>>
    [] op = "invring" -> IF HasInvRing(a, n) THEN <<InvRingBN(a, n), TRUE>> ELSE <<m, FALSE>>
    [] op = "npow2" -> LET e == NextPow2Exp(a) IN IF e < n THEN <<Pow2(e), TRUE>> ELSE <<m, FALSE>>
    [] op \in {"rt_dec", "rt_hex", "rt_be", "rt_le", "rt_limbs"} -> <<a, FALSE>>
    [] op = "via_u64" -> <<Mod2(a, BMin(n, 64)), ~Lt2(a, 64)>>        \* wrapping_to::<u64>() and back
    [] op = "shl" -> <<ShlVal(a, k, n), FALSE>>
    [] op = "shr" -> <<IF k >= n THEN Zero ELSE ShrVal(a, k), FALSE>>
    [] op = "ashr" -> <<AShr(a, k, n), FALSE>>
    [] op = "rotl" -> <<IF n = 0 THEN Zero ELSE RotL(a, k % n, n), FALSE>>
    [] op = "rotr" -> <<IF n = 0 THEN Zero ELSE RotL(a, (n - (k % n)) % n, n), FALSE>>
    [] op = "oshl" -> <<ShlVal(a, k, n), ShlLost(a, k, n)>>
    [] op = "oshr" -> <<IF k >= n THEN Zero ELSE ShrVal(a, k), ShrLost(a, k, n)>>
    \* the exponent is itself a value of the width: k mod 2^n
    [] op = "pow" -> LET x == Mod2(FromNat(k), n) IN <<IF n = 0 THEN Zero ELSE PowWrap(a, x, n), PowOverflows(a, x, n)>>
    [] op = "root" -> <<RootBN(a, k + 1), FALSE>>
    [] op = "setbit1" -> <<IF k < n THEN BOr(a, Pow2(k)) ELSE a, k < n /\ BitAt(a, k) = 1>>
    [] op = "setbit0" -> <<IF k < n THEN BAnd(a, NotK(Pow2(k), n)) ELSE a, k < n /\ BitAt(a, k) = 1>>
    [] op = "load" -> <<Mod2(FromNat(k), n), ~Lt2(FromNat(k), n)>>          \* wrapping_from(k as u64)
    [] op = "reduce" -> <<IF IsZero(m) THEN Zero ELSE DivMod(a, m)[2], FALSE>>
    [] op = "addmod" -> <<IF IsZero(m) THEN Zero ELSE DivMod(Add(a, b), m)[2], FALSE>>
    [] op = "mulmod" -> <<IF IsZero(m) THEN Zero ELSE DivMod(Mul(a, b), m)[2], FALSE>>
    \* Uint<n> -> Uint<k> -> Uint<n>: the flag says whether the first leg was lossless
    [] op = "wto" -> <<Mod2(Mod2(a, k), n), Lt2(a, k)>>
    [] op = "sto" -> <<IF Lt2(a, k) THEN a ELSE (IF k <= n THEN MaxU(k) ELSE a), Lt2(a, k)>>
    [] op = "cto" -> IF Lt2(a, k) THEN <<a, TRUE>> ELSE <<m, FALSE>>
    [] op = "cnmo" -> IF IsZero(b) THEN <<m, FALSE>>
                      ELSE LET r == DivMod(a, b)[2]
                               v == IF IsZero(r) THEN a ELSE Add(a, Sub(b, r))
                           IN IF Lt2(v, n) THEN <<v, TRUE>> ELSE <<m, FALSE>>
    [] op = "powmod" -> <<IF Le(m, One) THEN Zero
                          ELSE FoldL(LAMBDA acc, i : DivMod(Mul(acc, a), m)[2], One, [i \in 1..k |-> i]), FALSE>>
    \* ---- second family
    [] op = "cadd" -> IF AddOverflows(a, b, n) THEN <<m, FALSE>> ELSE <<Add(a, b), TRUE>>
    [] op = "csub" -> IF Lt(a, b) THEN <<m, FALSE>> ELSE <<Sub(a, b), TRUE>>
    [] op = "cmul" -> IF MulOverflows(a, b, n) THEN <<m, FALSE>> ELSE <<Mul(a, b), TRUE>>
    [] op = "cdiv" -> IF IsZero(b) THEN <<m, FALSE>> ELSE <<DivMod(a, b)[1], TRUE>>
    [] op = "crem" -> IF IsZero(b) THEN <<m, FALSE>> ELSE <<DivMod(a, b)[2], TRUE>>
    [] op = "invmod" -> LET x == InvModBN(a, b) IN IF x = <<>> THEN <<m, FALSE>> ELSE <<x[1], TRUE>>
    [] op = "clog" -> IF IsZero(a) \/ Le(b, One) THEN <<m, FALSE>> ELSE <<Num(LogBN(a, b), n), TRUE>>
    [] op = "sum3" -> <<Mod2(Add(Add(a, b), m), n), FALSE>>
    [] op = "prod3" -> <<WrapMul(WrapMul(a, b, n), m, n), FALSE>>
    \* mul_redc(a, b, modulus m, inv): a b R^-1 mod m with R = 2^(64 LIMBS); outside the precondition the step is a no-op
    [] op = "redc" -> IF n > 0 /\ BitAt(m, 0) = 1 /\ Ge(m, <<3>>) /\ Lt(a, m) /\ Lt(b, m)
                      THEN LET ri == InvModBN(Pow2(64 * NLimbs(n)), m)[1]
                           IN <<DivMod(Mul(DivMod(Mul(a, b), m)[2], ri), m)[2], TRUE>>
                      ELSE <<m, FALSE>>
    [] op = "lo" -> <<Num(LeadingZeros(NotK(a, n), n), n), FALSE>>
    [] op = "to" -> <<Num(TrailingZerosN(NotK(a, n), n), n), FALSE>>
    [] op = "cz" -> <<Num(n - PopCount(a), n), FALSE>>
    [] op = "bytelen" -> <<Num((BitLen(a) + 7) \div 8, n), FALSE>>
    [] op = "msb" -> LET mv == MsbVal(a) IN <<Mod2(mv[1], n), mv[2] > 0>>
    [] op = "clog2" -> IF IsZero(a) THEN <<m, FALSE>> ELSE <<Num(BitLen(a) - 1, n), TRUE>>
    [] op = "clog10" -> IF IsZero(a) THEN <<m, FALSE>> ELSE <<Num(LogBN(a, <<10>>), n), TRUE>>
    [] op = "cneg" -> IF IsZero(a) THEN <<Zero, TRUE>> ELSE <<m, FALSE>>
    [] op = "zeroize" -> <<Zero, FALSE>>
    [] op = "setone" -> <<Mod2(One, n), FALSE>>
    [] op \in CodecOps \cup BaseOps -> <<a, FALSE>>
    [] op = "cshl" -> IF ShlLost(a, k, n) THEN <<m, FALSE>> ELSE <<ShlVal(a, k, n), TRUE>>
    [] op = "cshr" -> IF ShrLost(a, k, n) THEN <<m, FALSE>> ELSE <<IF k >= n THEN Zero ELSE ShrVal(a, k), TRUE>>
    [] op = "sshl" -> <<IF ShlLost(a, k, n) THEN MaxU(n) ELSE ShlVal(a, k, n), FALSE>>
    [] op = "wshl" -> <<ShlVal(a, k, n), FALSE>>
    [] op = "wshr" -> <<IF k >= n THEN Zero ELSE ShrVal(a, k), FALSE>>
    [] op = "cbyte" -> IF k < NBytes(n) THEN <<Num(At(a, k + 1), n), TRUE>> ELSE <<m, FALSE>>
    [] op \in PowImmOps -> LET x == Mod2(FromNat(k), n)
                               v == IF n = 0 THEN Zero ELSE PowWrap(a, x, n)
                               o == PowOverflows(a, x, n)
                           IN CASE op = "cpow" -> IF o THEN <<m, FALSE>> ELSE <<v, TRUE>>
                                [] op = "spow" -> <<IF o THEN MaxU(n) ELSE v, FALSE>>
                                [] OTHER -> <<v, FALSE>>
    [] op = "ctsel" -> <<IF k = 0 THEN a ELSE b, FALSE>>

Ops2 == ChkBinOps \cup QryOps \cup CodecOps \cup ChkShiftOps \cup PowImmOps \cup BaseOps \cup SelOps
Ops == BinOps \cup FlagOps \cup DivOps \cup UnOps \cup ShiftOps \cup ImmOps \cup ModOps \cup ConvOps \cup MoreFlagOps \cup MoreImmOps \cup Ops2

Imms(op, n) == IF op \in ShiftOps \/ op \in {"setbit1", "setbit0"} \/ op \in ChkShiftOps THEN ShiftAmts(n)
               ELSE IF op \in PowImmOps THEN SmallImm
               ELSE IF op \in BaseOps THEN BaseImm
               ELSE IF op \in SelOps THEN {0, 1}
               ELSE IF op \in ConvOps THEN ConvT
               ELSE IF op \in {"pow", "powmod"} THEN SmallImm
               ELSE IF op = "root" THEN RootImm
               ELSE IF op = "load" THEN {0, 1, 2, 255, 256, 65535}
               ELSE {0}

Init ==
  /\ bits \in Widths
  /\ reg \in [Reg -> IF Exhaustive THEN AllVals(bits) ELSE Seeds(bits)]
  /\ obs = [op |-> "init"]
  /\ hist = <<[op |-> "init", regs |-> reg]>>

\* one public operation: destination d, sources s1, s2, immediate k
Do(op, d, s1, s2, k) ==
  /\ Len(hist) <= MaxDepth
  /\ Focus = {} \/ op \in Focus
  /\ op \in DivOps => ~IsZero(reg[s2])
  /\ LET r == Apply(op, reg[s1], reg[s2], reg[d], k, bits)
     IN /\ reg' = [reg EXCEPT ![d] = r[1]]
        /\ obs' = [op |-> op, bits |-> bits, d |-> d, s1 |-> s1, s2 |-> s2, k |-> k,
                   a |-> reg[s1], b |-> reg[s2], m |-> reg[d], v |-> r[1], f |-> r[2]]
        /\ hist' = Append(hist, [op |-> op, d |-> d, s1 |-> s1, s2 |-> s2, k |-> k, f |-> r[2], regs |-> reg'])
  /\ UNCHANGED bits

Next ==
  \/ \E op \in BinOps \cup FlagOps \cup MoreFlagOps \cup DivOps \cup ModOps, d \in Reg, s1 \in Reg, s2 \in Reg : Do(op, d, s1, s2, 0)
  \/ \E op \in UnOps, d \in Reg, s1 \in Reg : Do(op, d, s1, s1, 0)
  \/ \E op \in ShiftOps \cup ImmOps \cup ConvOps \cup MoreImmOps, d \in Reg, s1 \in Reg : \E k \in Imms(op, bits) : Do(op, d, s1, s1, k)
  \/ \E op \in ChkBinOps, d \in Reg, s1 \in Reg, s2 \in Reg : Do(op, d, s1, s2, 0)
  \/ \E op \in QryOps \cup CodecOps, d \in Reg, s1 \in Reg : Do(op, d, s1, s1, 0)
  \/ \E op \in ChkShiftOps \cup PowImmOps \cup BaseOps, d \in Reg, s1 \in Reg : \E k \in Imms(op, bits) : Do(op, d, s1, s1, k)
  \/ \E op \in SelOps, d \in Reg, s1 \in Reg, s2 \in Reg : \E k \in Imms(op, bits) : Do(op, d, s1, s2, k)

Spec == Init /\ [][Next]_vars

-----------------------------------------------------------------------------
\* C04: the canonical set is closed under every operation
Canonical == \A r \in Reg : IsNat(reg[r]) /\ Lt2(reg[r], bits)

(* The actions agree with the plain integer statements of the properties   *)
(* (TLC's native arithmetic; meaningful while 2^(2 bits) stays below 2^31, *)
(* i.e. for the exhaustive exploration at tiny widths).                    *)
NativeOK ==
  (obs.op # "init" /\ bits <= 12) =>
    LET n == bits  M == 2 ^ n
        a == ToNat(obs.a)  b == ToNat(obs.b)  m == ToNat(obs.m)  k == obs.k  v == ToNat(obs.v)  f == obs.f
        op == obs.op
    IN CASE op = "wadd" -> v = (a + b) % M
         [] op = "oadd" -> v = (a + b) % M /\ f = (a + b >= M)
         [] op = "sadd" -> v = (IF a + b >= M THEN M - 1 ELSE a + b)
         [] op = "wsub" -> v = (a + M - b) % M
         [] op = "osub" -> v = (a + M - b) % M /\ f = (a < b)
         [] op = "ssub" -> v = (IF a < b THEN 0 ELSE a - b)
         [] op = "adiff" -> v = (IF a < b THEN b - a ELSE a - b)
         [] op = "wneg" -> v = (M - a) % M /\ f = (a # 0)
         [] op = "wmul" -> v = (a * b) % M
         [] op = "omul" -> v = (a * b) % M /\ f = (a * b >= M)
         [] op = "smul" -> v = (IF a * b >= M THEN M - 1 ELSE a * b)
         [] op = "div" -> v = a \div b
         [] op = "rem" -> v = a % b
         [] op = "divceil" -> v = (a + b - 1) \div b
         [] op = "min" -> v = (IF a <= b THEN a ELSE b)
         [] op = "max" -> v = (IF a >= b THEN a ELSE b)
         [] op = "cmp" -> f = (a < b)
         [] op = "gcd" -> /\ (a = 0 /\ b = 0 => v = 0)
                          /\ (a # 0 \/ b # 0 => v > 0 /\ a % v = 0 /\ b % v = 0
                                                /\ \A g \in (v + 1)..M : ~(a % g = 0 /\ b % g = 0))
         [] op = "lcm" -> IF a = 0 \/ b = 0 THEN f /\ v = 0
                          ELSE LET l == CHOOSE x \in 1..(a * b) : x % a = 0 /\ x % b = 0 /\ \A y \in 1..(x - 1) : ~(y % a = 0 /\ y % b = 0)
                               IN f = (l < M) /\ (f => v = l) /\ (~f => v = m)
         [] op = "shl" -> v = (IF k >= n THEN 0 ELSE (a * 2 ^ k) % M)
         [] op = "oshl" -> /\ v = (IF k >= n THEN 0 ELSE (a * 2 ^ k) % M)
                           /\ f = (IF k >= n THEN a # 0 ELSE a * 2 ^ k >= M)
         [] op = "shr" -> v = (IF k >= n THEN 0 ELSE a \div 2 ^ k)
         [] op = "oshr" -> /\ v = (IF k >= n THEN 0 ELSE a \div 2 ^ k)
                           /\ f = (IF k >= n THEN a # 0 ELSE a % 2 ^ k # 0)
         [] op = "pow" -> LET x == k % M IN
                          /\ (a = 0 /\ x = 0 => v = 1 % M)
                          /\ (a > 0 => v = (a ^ x) % M /\ f = (a ^ x >= M))
         [] op = "root" -> (n > 0) => (v ^ (k + 1) <= a /\ (v + 1) ^ (k + 1) > a)
         [] op = "reduce" -> v = (IF m = 0 THEN 0 ELSE a % m)
         [] op = "addmod" -> v = (IF m = 0 THEN 0 ELSE (a + b) % m)
         [] op = "mulmod" -> v = (IF m = 0 THEN 0 ELSE (a * b) % m)
         [] op = "invring" -> IF n > 0 /\ a % 2 = 1 THEN f /\ (a * v) % M = 1 % M ELSE ~f /\ v = m
         [] op = "load" -> v = k % M /\ f = (k >= M)
         [] op = "popcount" -> v = Cardinality({i \in 0..(n - 1) : (a \div 2 ^ i) % 2 = 1}) % M
         [] op = "not" -> v = M - 1 - a
         [] op \in {"rt_dec", "rt_hex", "rt_be", "rt_le", "rt_limbs"} -> v = a
         [] op = "via_u64" -> v = a /\ ~f
         [] op = "npow2" -> IF a = 0 THEN (IF n > 0 THEN f /\ v = 1 ELSE ~f)
                            ELSE LET p == CHOOSE e \in 0..n : 2 ^ e >= a /\ (e = 0 \/ 2 ^ (e - 1) < a)
                                 IN f = (p < n) /\ (f => v = 2 ^ p)
         [] op = "wto" -> v = (IF k >= 31 THEN a ELSE (a % 2 ^ k) % M) /\ f = (k >= 31 \/ a < 2 ^ k)
         [] op = "sto" -> LET cap == IF k >= 31 THEN M - 1 ELSE 2 ^ k - 1 IN
                          v = (IF a <= cap THEN a ELSE cap) /\ f = (a <= cap)
         [] op = "cto" -> LET fits == k >= 31 \/ a < 2 ^ k IN f = fits /\ v = (IF fits THEN a ELSE m)
         [] op = "cnmo" -> IF b = 0 THEN ~f /\ v = m
                           ELSE LET x == ((a + b - 1) \div b) * b IN f = (x < M) /\ v = (IF x < M THEN x ELSE m)
         [] op = "powmod" -> v = (IF m <= 1 THEN 0 ELSE IF k = 0 THEN 1 ELSE (a ^ k) % m)
         \* ---- second family
         [] op = "cadd" -> f = (a + b < M) /\ v = (IF f THEN a + b ELSE m)
         [] op = "csub" -> f = (a >= b) /\ v = (IF f THEN a - b ELSE m)
         [] op = "cmul" -> f = (a * b < M) /\ v = (IF f THEN a * b ELSE m)
         [] op = "cdiv" -> f = (b # 0) /\ v = (IF f THEN a \div b ELSE m)
         [] op = "crem" -> f = (b # 0) /\ v = (IF f THEN a % b ELSE m)
         [] op = "invmod" -> LET ok == b >= 2 /\ \E x \in 0..(b - 1) : (a * x) % b = 1
                             IN f = ok /\ (f => v < b /\ (a * v) % b = 1) /\ (~f => v = m)
         [] op = "clog" -> IF a = 0 \/ b < 2 THEN ~f /\ v = m
                           ELSE f /\ \E kk \in 0..n : v = kk % M /\ b ^ kk <= a /\ b ^ (kk + 1) > a
         [] op = "sum3" -> v = (a + b + m) % M
         [] op = "prod3" -> v = (a * b * m) % M
         [] op = "redc" -> IF n > 0 /\ m % 2 = 1 /\ m >= 3 /\ a < m /\ b < m
                           THEN LET RECURSIVE Dbl(_, _)
                                    Dbl(r, i) == IF i = 0 THEN r ELSE Dbl((2 * r) % m, i - 1)
                                    Rm == Dbl(1 % m, 64 * ((n + 63) \div 64))            \* R mod m, R = 2^(64 LIMBS)
                                IN f /\ v < m /\ (v * Rm) % m = (a * b) % m
                           ELSE ~f /\ v = m
         [] op = "lo" -> v = (CHOOSE c \in 0..n : (\A i \in (n - c)..(n - 1) : (a \div 2 ^ i) % 2 = 1)
                                                  /\ (c = n \/ (a \div 2 ^ (n - c - 1)) % 2 = 0)) % M
         [] op = "to" -> v = (CHOOSE c \in 0..n : (\A i \in 0..(c - 1) : (a \div 2 ^ i) % 2 = 1)
                                                  /\ (c = n \/ (a \div 2 ^ c) % 2 = 0)) % M
         [] op = "cz" -> v = (n - Cardinality({i \in 0..(n - 1) : (a \div 2 ^ i) % 2 = 1})) % M
         [] op = "bytelen" -> v = (CHOOSE c \in 0..((n + 7) \div 8) : a < 256 ^ c /\ (c = 0 \/ a >= 256 ^ (c - 1))) % M
         [] op = "msb" -> v = a /\ ~f
         [] op = "clog2" -> IF a = 0 THEN ~f /\ v = m ELSE f /\ \E kk \in 0..n : v = kk % M /\ 2 ^ kk <= a /\ 2 ^ (kk + 1) > a
         [] op = "clog10" -> IF a = 0 THEN ~f /\ v = m ELSE f /\ \E kk \in 0..n : v = kk % M /\ 10 ^ kk <= a /\ 10 ^ (kk + 1) > a
         [] op = "cneg" -> f = (a = 0) /\ v = (IF f THEN 0 ELSE m)
         [] op = "zeroize" -> v = 0
         [] op = "setone" -> v = 1 % M
         [] op \in CodecOps \cup BaseOps -> v = a
         [] op = "cshl" -> LET lost == IF k >= n THEN a # 0 ELSE a * 2 ^ k >= M IN f = ~lost /\ v = (IF lost THEN m ELSE IF k >= n THEN 0 ELSE a * 2 ^ k)
         [] op = "cshr" -> LET lost == IF k >= n THEN a # 0 ELSE a % 2 ^ k # 0 IN f = ~lost /\ v = (IF lost THEN m ELSE IF k >= n THEN 0 ELSE a \div 2 ^ k)
         [] op = "sshl" -> LET lost == IF k >= n THEN a # 0 ELSE a * 2 ^ k >= M IN v = (IF lost THEN M - 1 ELSE IF k >= n THEN 0 ELSE a * 2 ^ k)
         [] op = "wshl" -> v = (IF k >= n THEN 0 ELSE (a * 2 ^ k) % M)
         [] op = "wshr" -> v = (IF k >= n THEN 0 ELSE a \div 2 ^ k)
         [] op = "cbyte" -> f = (k < (n + 7) \div 8) /\ v = (IF f THEN ((a \div 256 ^ k) % 256) % M ELSE m)
         [] op \in PowImmOps -> LET x == k % M
                                    ov == a > 0 /\ a ^ x >= M
                                    pv == IF a = 0 THEN (IF x = 0 THEN 1 % M ELSE 0) ELSE (a ^ x) % M
                                IN CASE op = "cpow" -> f = ~ov /\ v = (IF ov THEN m ELSE pv)
                                     [] op = "spow" -> v = (IF ov THEN M - 1 ELSE pv)
                                     [] OTHER -> v = pv
         [] op = "ctsel" -> v = (IF k = 0 THEN a ELSE b)
         [] OTHER -> TRUE

TypeOK == bits \in Widths /\ DOMAIN reg = Reg

\* emission for the replay direction
EmitTransitions == obs.op # "init" => PrintT(<<"T", ToJson(obs)>>)
EmitHistories == (Len(hist) = MaxDepth + 1) => PrintT(<<"H", ToJson([bits |-> bits, steps |-> hist])>>)
=============================================================================
