------------------------------- MODULE UintBits -------------------------------
(***************************************************************************)
(* Layer 1: bits.rs, special.rs (powers of two), cmp.rs.                   *)
(* Everything is defined on the n-bit binary expansion of the value.       *)
(***************************************************************************)
EXTENDS UintArith

\* a shift amount / index arrives as a BigNat (it may exceed 2^31); every
\* amount >= 2^20 behaves like "at least the width" (widths are <= 2^16)
Amt(s) == IF Lt2(s, 20) THEN ToNat(s) ELSE 1048576

\* ---- C05 ---------------------------------------------------------------
ShlVal(a, s, n)  == IF s >= n THEN Zero ELSE Mod2(Shl(a, s), n)
\* a non-zero bit leaves the word:  a * 2^s >= 2^n
ShlLost(a, s, n) == ~IsZero(a) /\ BitLen(a) + s > n
ShrVal(a, s)     == Div2(a, s)
\* a not divisible by 2^s
ShrLost(a, s, n) == ~IsZero(a) /\ (s >= n \/ ~IsZero(Mod2(a, s)))
\* arithmetic shift: the top min(s,n) bits are copies of bit n-1
AShr(a, s, n) ==
  IF n = 0 THEN Zero
  ELSE LET r == IF s >= n THEN Zero ELSE Div2(a, s)
           k == BMin(s, n)
       IN IF BitAt(a, n - 1) = 1 THEN BOr(r, Sub(Ones(n), Ones(n - k))) ELSE r
\* rotation of the n-bit word by s mod n
RotL(a, s, n) == IF n = 0 THEN Zero
                 ELSE IF s = 0 THEN a ELSE BOr(Mod2(Shl(a, s), n), Div2(a, n - s))
\* s mod n for a BigNat s and native n > 0
AmtMod(s, n) == DivModSmall(s, n)[2]

ShiftTypes == << <<"usize", 64>>, <<"u8", 8>>, <<"u16", 16>>, <<"u32", 32>>, <<"u64", 64>>,
                 <<"isize", 63>>, <<"i8", 7>>, <<"i16", 15>>, <<"i32", 31>>, <<"i64", 63>> >>
ShiftForms == <<"_v", "_r", "_av", "_ar">>

CheckShift(e) ==
  LET a == e.a  n == e.bits  s == Amt(e.s)
      l == ShlVal(a, s, n)   lo == ShlLost(a, s, n)
      r == IF s >= n THEN Zero ELSE ShrVal(a, s)
      ro == ShrLost(a, s, n)
      rl == IF n = 0 THEN Zero ELSE RotL(a, AmtMod(e.s, n), n)
      rr == IF n = 0 THEN Zero ELSE RotL(a, (n - AmtMod(e.s, n)) % n, n)
      \* typed operator overloads: present iff the amount fits the type; all equal the wrapping forms
      typed == \A t \in 1..Len(ShiftTypes) : \A f \in 1..Len(ShiftForms) :
                 LET ln == "shl_" \o ShiftTypes[t][1] \o ShiftForms[f]
                     rn == "shr_" \o ShiftTypes[t][1] \o ShiftForms[f]
                 IN IF Lt2(e.s, ShiftTypes[t][2]) THEN Eq(e, ln, l) /\ Eq(e, rn, r)
                                                  ELSE ~Has(e, ln) /\ ~Has(e, rn)
  IN [ oshl |-> Eq(e, "oshl", <<l, lo>>),
       cshl |-> Eq(e, "cshl", Opt(lo, l)),
       sshl |-> Eq(e, "sshl", IF lo THEN MaxU(n) ELSE l),
       wshl |-> Eq(e, "wshl", l),
       oshr |-> Eq(e, "oshr", <<r, ro>>),
       cshr |-> Eq(e, "cshr", Opt(ro, r)),
       wshr |-> Eq(e, "wshr", r),
       ashr |-> Eq(e, "ashr", AShr(a, s, n)),
       rotl |-> Eq(e, "rotl", rl),
       rotr |-> Eq(e, "rotr", rr),
       typed |-> IF Has(e, "ty") THEN typed ELSE TRUE ]

\* shift amount held in a Uint (any magnitude)
CheckShiftU(e) ==
  LET a == e.a  n == e.bits  s == Amt(e.s)
      l == ShlVal(a, s, n)
      r == IF s >= n THEN Zero ELSE ShrVal(a, s)
  IN [ shl_v |-> Eq(e, "shl_v", l), shl_r |-> Eq(e, "shl_r", l),
       shl_av |-> Eq(e, "shl_av", l), shl_ar |-> Eq(e, "shl_ar", l),
       shr_v |-> Eq(e, "shr_v", r), shr_r |-> Eq(e, "shr_r", r),
       shr_av |-> Eq(e, "shr_av", r), shr_ar |-> Eq(e, "shr_ar", r) ]

\* ---- C06 ---------------------------------------------------------------
CheckLogic(e) ==
  LET a == e.a  b == e.b  n == e.bits
      nt == NotK(a, n)  an == BAnd(a, b)  or == BOr(a, b)  xo == BXor(a, b)
  IN [ not_m |-> Eq(e, "not_m", nt), not_v |-> Eq(e, "not_v", nt), not_r |-> Eq(e, "not_r", nt),
       and_vv |-> Eq(e, "and_vv", an), and_vr |-> Eq(e, "and_vr", an), and_rv |-> Eq(e, "and_rv", an),
       and_rr |-> Eq(e, "and_rr", an), and_av |-> Eq(e, "and_av", an), and_ar |-> Eq(e, "and_ar", an),
       or_vv |-> Eq(e, "or_vv", or), or_vr |-> Eq(e, "or_vr", or), or_rv |-> Eq(e, "or_rv", or),
       or_rr |-> Eq(e, "or_rr", or), or_av |-> Eq(e, "or_av", or), or_ar |-> Eq(e, "or_ar", or),
       xor_vv |-> Eq(e, "xor_vv", xo), xor_vr |-> Eq(e, "xor_vr", xo), xor_rv |-> Eq(e, "xor_rv", xo),
       xor_rr |-> Eq(e, "xor_rr", xo), xor_av |-> Eq(e, "xor_av", xo), xor_ar |-> Eq(e, "xor_ar", xo) ]

LeadingZeros(a, n)  == n - BitLen(a)
TrailingZerosN(a, n) == IF IsZero(a) THEN n ELSE TrailingZeros(a)
ReverseBits(a, n)   == FromBits(Rev(ToBits(a, n)))
\* smallest power of two >= a (as an exponent)
NextPow2Exp(a) == IF IsZero(a) THEN 0
                  ELSE IF PopCount(a) = 1 THEN BitLen(a) - 1 ELSE BitLen(a)
\* top 64 significant bits and exponent
MsbVal(a) == IF BitLen(a) <= 64 THEN <<a, 0>> ELSE <<Div2(a, BitLen(a) - 64), BitLen(a) - 64>>

CheckBitQ(e) ==
  LET a == e.a  n == e.bits
      na == NotK(a, n)
      k == NextPow2Exp(a)
      fits == k < n
  IN [ lz |-> Eq(e, "lz", LeadingZeros(a, n)),
       lo |-> Eq(e, "lo", LeadingZeros(na, n)),
       tz |-> Eq(e, "tz", TrailingZerosN(a, n)),
       to |-> Eq(e, "to", TrailingZerosN(na, n)),
       co |-> Eq(e, "co", PopCount(a)),
       cz |-> Eq(e, "cz", n - PopCount(a)),
       bitlen |-> Eq(e, "bitlen", BitLen(a)),
       bytelen |-> Eq(e, "bytelen", Len(a)),
       rev |-> Eq(e, "rev", ReverseBits(a, n)),
       msb |-> Eq(e, "msb", MsbVal(a)),
       ispow2 |-> Eq(e, "ispow2", PopCount(a) = 1),
       cnpow2 |-> Eq(e, "cnpow2", IF fits THEN Some(Pow2(k)) ELSE None),
       npow2 |-> IF fits THEN Eq(e, "npow2", Pow2(k)) ELSE Panics(e, "npow2") ]

NBytes(n) == (n + 7) \div 8

CheckBitIdx(e) ==
  LET a == e.a  n == e.bits  i == Amt(e.i)
      inr == i < n
  IN [ bit  |-> Eq(e, "bit", inr /\ BitAt(a, i) = 1),
       set1 |-> Eq(e, "set1", IF inr THEN BOr(a, Pow2(i)) ELSE a),
       set0 |-> Eq(e, "set0", IF inr THEN BAnd(a, NotK(Pow2(i), n)) ELSE a),
       byte |-> IF i < NBytes(n) THEN Eq(e, "byte", At(a, i + 1)) ELSE Panics(e, "byte"),
       cbyte |-> Eq(e, "cbyte", IF i < NBytes(n) THEN Some(At(a, i + 1)) ELSE None) ]

\* ---- C04 (comparisons) -------------------------------------------------
CheckCmp(e) ==
  LET a == e.a  b == e.b  c == Cmp(a, b)
  IN [ eq |-> Eq(e, "eq", c = 0), ne |-> Eq(e, "ne", c # 0),
       lt |-> Eq(e, "lt", c < 0), le |-> Eq(e, "le", c <= 0),
       gt |-> Eq(e, "gt", c > 0), ge |-> Eq(e, "ge", c >= 0),
       cmp |-> Eq(e, "cmp", c + 1), pcmp |-> Eq(e, "pcmp", Some(c + 1)),
       min |-> Eq(e, "min", IF c <= 0 THEN a ELSE b),
       max |-> Eq(e, "max", IF c >= 0 THEN a ELSE b),
       zero |-> Eq(e, "zero", IsZero(a)),
       \* equal numbers hash equally (unequal numbers may collide; not constrained)
       hasheq |-> Has(e, "hasheq") /\ (c = 0 => e.hasheq) ]

CheckBits(e) ==
  CASE e.op = "shift"  -> CheckShift(e)
    [] e.op = "shiftu" -> CheckShiftU(e)
    [] e.op = "logic"  -> CheckLogic(e)
    [] e.op = "bitq"   -> CheckBitQ(e)
    [] e.op = "bitidx" -> CheckBitIdx(e)
    [] e.op = "cmp"    -> CheckCmp(e)
    [] OTHER           -> [unknown_op |-> FALSE]
=============================================================================
