------------------------------ MODULE MC_Float ------------------------------
(***************************************************************************)
(* Self-consistency of the floating-point specification (UintFloat.tla,    *)
(* the oracle of C18 and of the FLOAT4 / FLOAT8 columns in C17), checked   *)
(* by TLC without any implementation in the loop.  Every definition of     *)
(* UintFloat.tla is generic in the format <<fraction bits, exponent bits>>, *)
(* so the model instantiates it with TINY formats (a few hundred bit       *)
(* patterns) and enumerates EVERY pattern against EVERY integer up to       *)
(* twice the format's range, comparing the formulas of the oracle          *)
(* (truncate to k bits / add half and shift) with their CHARACTERISING      *)
(* properties, written here on TLC's native integers:                      *)
(*   nearest-or-neighbour: no representable value lies strictly between;   *)
(*   floor(f + 1/2) = r  iff  2 r - 1 <= 2 f < 2 r + 1;                    *)
(*   +infinity is allowed exactly from (largest finite + half an ulp) on.  *)
(***************************************************************************)
EXTENDS UintFloat, TLC
CONSTANTS Formats        \* set of <<fraction bits, exponent bits>>
VARIABLES fm, p, v
\* the configuration files substitute one of these for Formats (a .cfg cannot hold tuples)
FormatsSmall == {<<2, 3>>, <<3, 3>>, <<2, 4>>}
FormatsLarge == FormatsSmall \cup {<<3, 4>>, <<4, 4>>, <<5, 4>>}
vars == <<fm, p, v>>

RECURSIVE P2(_)
P2(k) == IF k = 0 THEN 1 ELSE 2 * P2(k - 1)

NPat(f) == P2(f[1] + f[2])                 \* non-negative patterns 0 .. NPat - 1 (sign bit clear)
EMax(f) == P2(f[2] - 1)                     \* values below 2^EMax are in range
VMax(f) == 2 * P2(EMax(f)) + 2              \* integers 0 .. VMax are tried (twice the range, for the infinity rule)

Init == fm \in Formats /\ p = -1 /\ v = -1
\* the pattern and the integer are chosen in two steps, so that TLC's workers share the enumeration
Next == \/ /\ p = -1
           /\ p' \in 0..(2 * NPat(fm) - 1)     \* sign bit included
           /\ UNCHANGED <<fm, v>>
        \/ /\ p >= 0 /\ v = -1
           /\ v' \in 0..VMax(fm)
           /\ UNCHANGED <<fm, p>>
Spec == Init /\ [][Next]_vars

\* ---- native reading of a pattern ------------------------------------------------
frac(q) == q % P2(fm[1])
expo(q) == (q \div P2(fm[1])) % P2(fm[2])
sign(q) == q \div NPat(fm) = 1
bias == P2(fm[2] - 1) - 1
isnan(q) == expo(q) = P2(fm[2]) - 1 /\ frac(q) # 0
isinf(q) == expo(q) = P2(fm[2]) - 1 /\ frac(q) = 0
\* finite value = mant * 2^ex
mant(q) == IF expo(q) = 0 THEN frac(q) ELSE frac(q) + P2(fm[1])
ex(q) == (IF expo(q) = 0 THEN 1 ELSE expo(q)) - bias - fm[1]
\* comparison of mant * 2^ex with an integer w, by cross-multiplication:  -1, 0, 1
CmpInt(q, w) ==
  LET l == IF ex(q) >= 0 THEN mant(q) * P2(ex(q)) ELSE mant(q)
      r == IF ex(q) >= 0 THEN w ELSE w * P2(-ex(q))
  IN IF l < r THEN -1 ELSE IF l = r THEN 0 ELSE 1
\* 2 f compared with an integer w
Cmp2f(q, w) ==
  LET l == IF ex(q) >= 0 THEN 2 * mant(q) * P2(ex(q)) ELSE 2 * mant(q)
      r == IF ex(q) >= 0 THEN w ELSE w * P2(-ex(q))
  IN IF l < r THEN -1 ELSE IF l = r THEN 0 ELSE 1
\* the non-negative finite patterns whose value is an integer, and that integer
IsIntPat(q) == ~sign(q) /\ ~isnan(q) /\ ~isinf(q) /\ (ex(q) >= 0 \/ mant(q) % P2(-ex(q)) = 0)
IntVal(q) == IF ex(q) >= 0 THEN mant(q) * P2(ex(q)) ELSE mant(q) \div P2(-ex(q))
Rep == {IntVal(q) : q \in {q \in 0..(NPat(fm) - 1) : IsIntPat(q)}}
MaxFinite == (P2(fm[1] + 1) - 1) * P2(EMax(fm) - fm[1] - 1)

P == FromNat(p)
V == FromNat(v)

\* the field extractors agree with the native reading
Fields0 ==
  /\ FSign(P, fm) = sign(p) /\ FExp(P, fm) = expo(p) /\ ToNat(FFrac(P, fm)) = frac(p)
  /\ FIsNaN(P, fm) = isnan(p) /\ FIsInf(P, fm) = isinf(p)
  /\ (~isnan(p) /\ ~isinf(p)) => (ToNat(FM(P, fm)) = mant(p) /\ FE(P, fm) = ex(p))
  /\ FIsZeroVal(P, fm) = (~isnan(p) /\ ~isinf(p) /\ mant(p) = 0)

\* floor(f + 1/2), by its characterising inequalities
RoundHalfUp0 ==
  (~sign(p) /\ ~isnan(p) /\ ~isinf(p) /\ ex(p) <= 8) =>
    LET r == ToNat(RoundHalfUp(P, fm)) IN Cmp2f(p, 2 * r - 1) >= 0 /\ Cmp2f(p, 2 * r + 1) < 0

\* Uint -> float: accepted exactly when the pattern is the value's floor or ceiling in the grid of representable integers,
\* or +infinity from (largest finite + half an ulp) on
Near0 ==
  LET acc == IsNearFloat(V, P, fm)
      below == {u \in Rep : u <= v}
      above == {u \in Rep : u >= v}
      dn == CHOOSE u \in below : \A w \in below : w <= u
      up == CHOOSE u \in above : \A w \in above : w >= u
      ulp == P2(EMax(fm) - fm[1] - 1)                     \* unit in the last place of the top binade
  IN acc = ( \/ (isinf(p) /\ ~sign(p) /\ 2 * v >= 2 * MaxFinite + ulp)
             \/ (IsIntPat(p) /\ ((below # {} /\ IntVal(p) = dn) \/ (above # {} /\ IntVal(p) = up))) )

\* the two directions agree: what Uint -> float may yield reads back (float -> Uint) as a value of the same grid cell, and as
\* exactly v when v is representable
RoundTrip0 ==
  (IsNearFloat(V, P, fm) /\ ~isinf(p)) =>
    LET r == ToNat(RoundHalfUp(P, fm)) IN
    /\ r = IntVal(p)
    /\ (v \in Rep => r = v)
    /\ (r <= v => \A u \in Rep : ~(r < u /\ u <= v))
    /\ (r >= v => \A u \in Rep : ~(v <= u /\ u < r))

\* the order of non-negative patterns is the order of their values (what "monotone" in RunOK relies on)
Monotone0 ==
  (~sign(p) /\ ~isnan(p) /\ p + 1 < NPat(fm) /\ ~isnan(p + 1) /\ ~isinf(p + 1) /\ ~isinf(p)) =>
    LET a == FIntVal(P, fm)  b == FIntVal(FromNat(p + 1), fm) IN Le(a[2], b[2])

Fields == v >= 0 => Fields0
RoundHalf == v >= 0 => RoundHalfUp0
Near == v >= 0 => Near0
RoundTrip == v >= 0 => RoundTrip0
Monotone == v >= 0 => Monotone0
=============================================================================
