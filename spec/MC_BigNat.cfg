SPECIFICATION Spec
CONSTANTS
  N = 300
  Big = {255, 256, 257, 511, 512, 513, 1023, 1024, 4095, 4096, 32767, 32768, 65535, 65536, 65537, 21845, 43690, 46340, 46341}
INVARIANTS RoundTrip CmpOK AddOK SubOK AbsOK MulOK SmallOK DivOK ShiftOK BitsOK LogicOK PowOK
CHECK_DEADLOCK FALSE
