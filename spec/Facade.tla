------------------------------- MODULE Facade -------------------------------
(***************************************************************************)
(* C20: every alternative surface of an operation (num-traits,             *)
(* num-integer, subtle, the Bits wrapper, zeroize) is mapped to the        *)
(* Layer-1 action of the inherent method it stands for; both are validated *)
(* by the same action, so the facade agrees with the inherent method and   *)
(* with the specification.  Where the Layer-1 contract is relational       *)
(* (gcd cofactors, powers are cheap but inverse / gcd are witness-form),   *)
(* the event also carries the inherent method's result on the same         *)
(* operands and the facade must equal it.                                  *)
(***************************************************************************)
EXTENDS Codecs

\* facade f equals the inherent result recorded in field g (both returned, or both panicked)
Same(e, f, g) == IF Has(e, g) THEN Eq(e, f, e[g]) ELSE Panics(e, f)

CheckFac2(e) ==
  LET a == e.a  b == e.b  n == e.bits  z == IsZero(b)
      s == WrapAdd(a, b, n)   so == AddOverflows(a, b, n)
      d == WrapSub(a, b, n)   do == SubOverflows(a, b)
      full == Mul(a, b)
      p == Mod2(full, n)      po == ~Lt2(full, n)
      \* quotient and remainder: the inherent div_rem on the same operands, checked against the Euclidean contract
      okqr == ~z /\ Has(e, "in_divrem") /\ IsDivRem(a, b, e.in_divrem[1], e.in_divrem[2])
      q == IF okqr THEN e.in_divrem[1] ELSE Zero
      r == IF okqr THEN e.in_divrem[2] ELSE Zero
      c == Cmp(a, b)
      neg == WrapNeg(a, n)
      an == BAnd(a, b)  or == BOr(a, b)  xo == BXor(a, b)
      DivLike(f, v) == IF z THEN Panics(e, f) ELSE Eq(e, f, v)
  IN [ nt_cadd |-> Eq(e, "nt_cadd", Opt(so, s)), nt_csub |-> Eq(e, "nt_csub", Opt(do, d)),
       nt_cmul |-> Eq(e, "nt_cmul", Opt(po, p)),
       nt_cdiv |-> Eq(e, "nt_cdiv", IF z THEN None ELSE Some(q)), nt_crem |-> Eq(e, "nt_crem", IF z THEN None ELSE Some(r)),
       nt_cdive |-> Eq(e, "nt_cdive", IF z THEN None ELSE Some(q)), nt_creme |-> Eq(e, "nt_creme", IF z THEN None ELSE Some(r)),
       nt_dive |-> DivLike("nt_dive", q), nt_reme |-> DivLike("nt_reme", r),
       nt_divreme |-> DivLike("nt_divreme", <<q, r>>), nt_cdivreme |-> Eq(e, "nt_cdivreme", IF z THEN None ELSE Some(<<q, r>>)),
       nt_sat_add |-> Eq(e, "nt_sat_add", SatAdd(a, b, n)), nt_sat_sub |-> Eq(e, "nt_sat_sub", SatSub(a, b)),
       nt_sadd |-> Eq(e, "nt_sadd", SatAdd(a, b, n)), nt_ssub |-> Eq(e, "nt_ssub", SatSub(a, b)),
       nt_smul |-> Eq(e, "nt_smul", IF po THEN MaxU(n) ELSE p),
       nt_wadd |-> Eq(e, "nt_wadd", s), nt_wsub |-> Eq(e, "nt_wsub", d), nt_wmul |-> Eq(e, "nt_wmul", p),
       nt_oadd |-> Eq(e, "nt_oadd", <<s, so>>), nt_osub |-> Eq(e, "nt_osub", <<d, do>>), nt_omul |-> Eq(e, "nt_omul", <<p, po>>),
       nt_pow |-> Same(e, "nt_pow", "in_pow"),
       \* the value of pow is C13's subject; here it is re-checked only for small exponents (cost)
       in_pow |-> Has(e, "in_pow") /\ (Lt2(b, 10) => e.in_pow = (IF n = 0 THEN Zero ELSE PowWrap(a, b, n))),
       \* mul_add(a, b, a) = a*b + a
       nt_muladd |-> Eq(e, "nt_muladd", WrapAdd(p, a, n)), nt_muladd_as |-> Eq(e, "nt_muladd_as", WrapAdd(p, a, n)),
       ni_div_floor |-> DivLike("ni_div_floor", q), ni_mod_floor |-> DivLike("ni_mod_floor", r),
       ni_div_rem |-> DivLike("ni_div_rem", <<q, r>>), ni_div_mod_floor |-> DivLike("ni_div_mod_floor", <<q, r>>),
       ni_div_ceil |-> DivLike("ni_div_ceil", CeilOf(q, r)),
       ni_multiple |-> Eq(e, "ni_multiple", IF z THEN IsZero(a) ELSE IsZero(r)),
       ni_gcd |-> Same(e, "ni_gcd", "in_gcd"),
       \* Integer::lcm cannot express None: it panics exactly there
       ni_lcm |-> IF Has(e, "in_lcm") /\ Len(e.in_lcm) = 1 THEN Eq(e, "ni_lcm", e.in_lcm[1]) ELSE Panics(e, "ni_lcm"),
       ni_egcd |-> Same(e, "ni_egcd", "in_egcd"),
       \* provided method: (gcd, lcm) is the pair of the single results and panics exactly where lcm does (extended_gcd_lcm needs Signed)
       ni_gcd_lcm |-> IF Has(e, "in_lcm") /\ Len(e.in_lcm) = 1 /\ Has(e, "in_gcd")
                      THEN Eq(e, "ni_gcd_lcm", <<e.in_gcd, e.in_lcm[1]>>) ELSE Panics(e, "ni_gcd_lcm"),
       \* next / previous multiple: a zero divisor panics; where the multiple fits it is THE multiple (the provided method wraps
       \* where the inherent next_multiple_of panics: left open)
       ni_next_multiple |-> IF z THEN Panics(e, "ni_next_multiple")
                            ELSE LET nm == IF IsZero(r) THEN a ELSE Add(a, Sub(b, r)) IN Lt2(nm, n) => Eq(e, "ni_next_multiple", nm),
       ni_prev_multiple |-> IF z THEN Panics(e, "ni_prev_multiple") ELSE Eq(e, "ni_prev_multiple", Sub(a, r)),
       ni_divides |-> Eq(e, "ni_divides", IF z THEN IsZero(a) ELSE IsZero(r)),
       in_divrem |-> IF z THEN Panics(e, "in_divrem") ELSE okqr,
       in_gcd |-> Has(e, "in_gcd") /\ Has(e, "in_lcm") /\ Has(e, "in_egcd"),      \* values are C12's subject
       ct_eq |-> Eq(e, "ct_eq", c = 0), ct_ne |-> Eq(e, "ct_ne", c # 0),
       ct_gt |-> Eq(e, "ct_gt", c > 0), ct_lt |-> Eq(e, "ct_lt", c < 0),
       \* subtle: choice 0 selects the first argument / leaves the value alone
       ct_sel0 |-> Eq(e, "ct_sel0", a), ct_sel1 |-> Eq(e, "ct_sel1", b),
       ct_asg0 |-> Eq(e, "ct_asg0", a), ct_asg1 |-> Eq(e, "ct_asg1", b),
       ct_swap0 |-> Eq(e, "ct_swap0", <<a, b>>), ct_swap1 |-> Eq(e, "ct_swap1", <<b, a>>),
       ct_neg0 |-> Eq(e, "ct_neg0", a), ct_neg1 |-> Eq(e, "ct_neg1", neg),
       bits_and_vv |-> Eq(e, "bits_and_vv", an), bits_and_vr |-> Eq(e, "bits_and_vr", an), bits_and_rv |-> Eq(e, "bits_and_rv", an),
       bits_and_rr |-> Eq(e, "bits_and_rr", an), bits_and_av |-> Eq(e, "bits_and_av", an), bits_and_ar |-> Eq(e, "bits_and_ar", an),
       bits_or_vv |-> Eq(e, "bits_or_vv", or), bits_or_vr |-> Eq(e, "bits_or_vr", or), bits_or_rv |-> Eq(e, "bits_or_rv", or),
       bits_or_rr |-> Eq(e, "bits_or_rr", or), bits_or_av |-> Eq(e, "bits_or_av", or), bits_or_ar |-> Eq(e, "bits_or_ar", or),
       bits_xor_vv |-> Eq(e, "bits_xor_vv", xo), bits_xor_vr |-> Eq(e, "bits_xor_vr", xo), bits_xor_rv |-> Eq(e, "bits_xor_rv", xo),
       bits_xor_rr |-> Eq(e, "bits_xor_rr", xo), bits_xor_av |-> Eq(e, "bits_xor_av", xo), bits_xor_ar |-> Eq(e, "bits_xor_ar", xo),
       bits_eq |-> Eq(e, "bits_eq", c = 0) ]

\* value -> primitive: Some iff it fits (two's complement magnitude as logged: the executor logs `v as u128`)
ToPrim(a, cap) == IF Lt2(a, cap) THEN Some(a) ELSE None

CheckFac1(e) ==
  LET a == e.a  n == e.bits  nb == NBytes(n)
      na == NotK(a, n)
      le == ToLe(a, n)  be == ToBe(a, n)
      aligned == n % 8 = 0
      swapped == LEVal(be)            \* byte-swapped value (well-defined when BITS % 8 = 0)
      A(f, v) == IF aligned THEN Eq(e, f, v) ELSE ~Has(e, f)
      L8 == 8 * ((n + 63) \div 64)
  IN [ nt_zero |-> Eq(e, "nt_zero", Zero), nt_is_zero |-> Eq(e, "nt_is_zero", IsZero(a)),
       nt_one |-> Eq(e, "nt_one", Mod2(One, n)), nt_min |-> Eq(e, "nt_min", Zero), nt_max |-> Eq(e, "nt_max", MaxU(n)),
       nt_cneg |-> Eq(e, "nt_cneg", Opt(NegOverflows(a), WrapNeg(a, n))), nt_wneg |-> Eq(e, "nt_wneg", WrapNeg(a, n)),
       nt_inv |-> Same(e, "nt_inv", "in_inv"),
       in_inv |-> Has(e, "in_inv") /\ (IF HasInvRing(a, n) THEN Len(e.in_inv) = 1 /\ IsInvRing(a, e.in_inv[1], n) ELSE e.in_inv = None),
       nt_to_i64 |-> Eq(e, "nt_to_i64", ToPrim(a, 63)), nt_to_u64 |-> Eq(e, "nt_to_u64", ToPrim(a, 64)),
       nt_to_i128 |-> Eq(e, "nt_to_i128", ToPrim(a, 127)), nt_to_u128 |-> Eq(e, "nt_to_u128", ToPrim(a, 128)),
       nt_to_u8 |-> Eq(e, "nt_to_u8", ToPrim(a, 8)), nt_to_i8 |-> Eq(e, "nt_to_i8", ToPrim(a, 7)),
       nt_to_u16 |-> Eq(e, "nt_to_u16", ToPrim(a, 16)), nt_to_i16 |-> Eq(e, "nt_to_i16", ToPrim(a, 15)),
       nt_to_u32 |-> Eq(e, "nt_to_u32", ToPrim(a, 32)), nt_to_i32 |-> Eq(e, "nt_to_i32", ToPrim(a, 31)),
       nt_to_usize |-> Eq(e, "nt_to_usize", ToPrim(a, 64)), nt_to_isize |-> Eq(e, "nt_to_isize", ToPrim(a, 63)),
       nt_is_one |-> Eq(e, "nt_is_one", a = Mod2(One, n)),
       nt_set_zero |-> Eq(e, "nt_set_zero", Zero), nt_set_one |-> Eq(e, "nt_set_one", Mod2(One, n)),
       nt_to_le |-> Eq(e, "nt_to_le", le), nt_to_be |-> Eq(e, "nt_to_be", be),
       nt_from_le |-> Eq(e, "nt_from_le", a), nt_from_be |-> Eq(e, "nt_from_be", a),
       nt_numcast |-> Eq(e, "nt_numcast", IF Lt2(a, 128) THEN Some(a) ELSE None),
       pi_count_ones |-> Eq(e, "pi_count_ones", PopCount(a)), pi_count_zeros |-> Eq(e, "pi_count_zeros", n - PopCount(a)),
       pi_lz |-> Eq(e, "pi_lz", LeadingZeros(a, n)), pi_lo |-> Eq(e, "pi_lo", LeadingZeros(na, n)),
       pi_tz |-> Eq(e, "pi_tz", TrailingZerosN(a, n)), pi_to |-> Eq(e, "pi_to", TrailingZerosN(na, n)),
       pi_rev |-> Eq(e, "pi_rev", ReverseBits(a, n)),
       pi_from_le |-> Eq(e, "pi_from_le", a), pi_to_le |-> Eq(e, "pi_to_le", a),
       pi_swap |-> A("pi_swap", swapped), pi_from_be |-> A("pi_from_be", swapped), pi_to_be |-> A("pi_to_be", swapped),
       ni_even |-> Eq(e, "ni_even", BitAt(a, 0) = 0), ni_odd |-> Eq(e, "ni_odd", BitAt(a, 0) = 1),
       ni_inc |-> Eq(e, "ni_inc", WrapAdd(a, Mod2(One, n), n)), ni_dec |-> Eq(e, "ni_dec", WrapSub(a, Mod2(One, n), n)),
       zeroize |-> Eq(e, "zeroize", Zero), zeroize_bits |-> Eq(e, "zeroize_bits", Zero),
       bits_not_v |-> Eq(e, "bits_not_v", na), bits_not_r |-> Eq(e, "bits_not_r", na),
       bits_rev |-> Eq(e, "bits_rev", ReverseBits(a, n)),
       bits_lz |-> Eq(e, "bits_lz", LeadingZeros(a, n)), bits_lo |-> Eq(e, "bits_lo", LeadingZeros(na, n)),
       bits_tz |-> Eq(e, "bits_tz", TrailingZerosN(a, n)), bits_to |-> Eq(e, "bits_to", TrailingZerosN(na, n)),
       bits_le |-> Eq(e, "bits_le", le), bits_be_vec |-> Eq(e, "bits_be_vec", be),
       bits_to_le |-> Eq(e, "bits_to_le", le), bits_to_be |-> Eq(e, "bits_to_be", be),
       bits_from_le |-> Eq(e, "bits_from_le", a), bits_from_be |-> Eq(e, "bits_from_be", a),
       bits_try_le |-> Eq(e, "bits_try_le", Some(a)), bits_try_be |-> Eq(e, "bits_try_be", Some(a)),
       bits_limbs |-> Eq(e, "bits_limbs", a),
       bits_as_limbs |-> Has(e, "bits_as_limbs") /\ Len(e.bits_as_limbs) = L8 /\ LEVal(e.bits_as_limbs) = a,
       bits_inner |-> Eq(e, "bits_inner", <<a, a>>),
       bits_str |-> Eq(e, "bits_str", <<a>>) ]

CheckFacS(e) ==
  LET a == e.a  n == e.bits
      raw == e.s                                           \* a u32 amount below 2^31
      s == IF raw > 1048576 THEN 1048576 ELSE raw          \* every amount >= 2^20 behaves like "at least the width"
      l == ShlVal(a, s, n)   lo == ShlLost(a, s, n)
      r == IF s >= n THEN Zero ELSE ShrVal(a, s)
      ro == ShrLost(a, s, n)
      rl == IF n = 0 THEN Zero ELSE RotL(a, raw % n, n)
      rr == IF n = 0 THEN Zero ELSE RotL(a, (n - (raw % n)) % n, n)
  IN [ nt_cshl |-> Eq(e, "nt_cshl", Opt(lo, l)), nt_cshr |-> Eq(e, "nt_cshr", Opt(ro, r)),
       nt_wshl |-> Eq(e, "nt_wshl", l), nt_wshr |-> Eq(e, "nt_wshr", r),
       pi_rotl |-> Eq(e, "pi_rotl", rl), pi_rotr |-> Eq(e, "pi_rotr", rr),
       pi_sshl |-> Eq(e, "pi_sshl", l), pi_ushl |-> Eq(e, "pi_ushl", l),
       pi_sshr |-> Eq(e, "pi_sshr", AShr(a, s, n)), pi_ushr |-> Eq(e, "pi_ushr", r),
       pi_pow |-> ~Has(e, "pi_pow") \/ e.pi_pow = (IF n = 0 THEN Zero ELSE PowWrap(a, FromNat(raw), n)),
       bits_cshl |-> Eq(e, "bits_cshl", Opt(lo, l)), bits_cshr |-> Eq(e, "bits_cshr", Opt(ro, r)),
       bits_oshl |-> Eq(e, "bits_oshl", <<l, lo>>), bits_oshr |-> Eq(e, "bits_oshr", <<r, ro>>),
       bits_wshl |-> Eq(e, "bits_wshl", l), bits_wshr |-> Eq(e, "bits_wshr", r),
       bits_rotl |-> Eq(e, "bits_rotl", rl), bits_rotr |-> Eq(e, "bits_rotr", rr),
       bits_shl_v |-> Eq(e, "bits_shl_v", l), bits_shl_r |-> Eq(e, "bits_shl_r", l), bits_shl_vr |-> Eq(e, "bits_shl_vr", l),
       bits_shl_rr |-> Eq(e, "bits_shl_rr", l), bits_shl_av |-> Eq(e, "bits_shl_av", l), bits_shl_ar |-> Eq(e, "bits_shl_ar", l),
       bits_shr_v |-> Eq(e, "bits_shr_v", r), bits_shr_r |-> Eq(e, "bits_shr_r", r), bits_shr_vr |-> Eq(e, "bits_shr_vr", r),
       bits_shr_rr |-> Eq(e, "bits_shr_rr", r), bits_shr_av |-> Eq(e, "bits_shr_av", r), bits_shr_ar |-> Eq(e, "bits_shr_ar", r),
       bits_index |-> Eq(e, "bits_index", s < n /\ BitAt(a, s) = 1),
       bit_ct |-> IF s < n THEN Eq(e, "bit_ct", BitAt(a, s) = 1) ELSE ~Has(e, "bit_ct") ]

\* FromPrimitive / NumCast: Some(v) iff 0 <= v < 2^n
CheckFacP(e) ==
  LET n == e.bits  v == e.v
      negative == e.sg /\ ~IsZero(v)
      exp == IF ~negative /\ Lt2(v, n) THEN Some(v) ELSE None
      O(f) == ~Has(e, f) \/ e[f] = exp
  IN [ from_u128 |-> O("from_u128"), cast_u128 |-> O("cast_u128"), from_u64 |-> O("from_u64"), cast_u64 |-> O("cast_u64"),
       from_u8 |-> O("from_u8"), from_i128 |-> O("from_i128"), cast_i128 |-> O("cast_i128"),
       from_i64 |-> O("from_i64"), cast_i64 |-> O("cast_i64"),
       num_radix |-> ~Has(e, "num_radix") \/ (Has(e, "in_radix") /\ e.num_radix = e.in_radix
                                               /\ e.in_radix = (IF Lt2(v, n) THEN <<v>> ELSE <<>>)),
       nopanic |-> e.pan = <<>> ]

CheckFac(e) ==
  CASE e.op = "fac2" -> CheckFac2(e)
    [] e.op = "fac1" -> CheckFac1(e)
    [] e.op = "facs" -> CheckFacS(e)
    [] e.op = "facp" -> CheckFacP(e)
    [] OTHER         -> [unknown_op |-> FALSE]
=============================================================================
