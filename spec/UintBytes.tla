------------------------------ MODULE UintBytes ------------------------------
(***************************************************************************)
(* Layer 1: bytes.rs.  The specification's value already is the base-256   *)
(* digit string, so the encodings are its fixed-length / trimmed forms.    *)
(***************************************************************************)
EXTENDS UintConv

ToLe(a, n) == ToBytes(a, NBytes(n))
ToBe(a, n) == Rev(ToBytes(a, NBytes(n)))

CheckEnc(e) ==
  LET a == e.a  n == e.bits
      le == ToLe(a, n)  be == ToBe(a, n)
  IN [ sizes |-> Eq(e, "sizes", <<NBytes(n), (n + 63) \div 64, NBytes(n), (n + 63) \div 64, n>>),
       le_slice |-> Eq(e, "le_slice", le), le_bytes |-> Eq(e, "le_bytes", le),
       le_trim |-> Eq(e, "le_trim", a),
       to_le |-> Eq(e, "to_le", le), to_be |-> Eq(e, "to_be", be),
       le_vec |-> Eq(e, "le_vec", le), be_vec |-> Eq(e, "be_vec", be),
       le_tvec |-> Eq(e, "le_tvec", a), be_tvec |-> Eq(e, "be_tvec", Rev(a)),
       rt_le |-> Eq(e, "rt_le", a), rt_be |-> Eq(e, "rt_be", a),
       rt_les |-> Eq(e, "rt_les", a), rt_bes |-> Eq(e, "rt_bes", a),
       rt_let |-> Eq(e, "rt_let", Some(a)), rt_bet |-> Eq(e, "rt_bet", Some(a)),
       \* array forms whose size parameter is not BYTES must panic ("fixed-size arrays ... in the stated ... length")
       wrong_size |-> \A f \in {"ws_to_le3", "ws_to_be3", "ws_to_le7", "ws_to_be7", "ws_to_le31", "ws_to_be31", "ws_to_be600",
                                 "ws_from_le3", "ws_from_be3", "ws_from_le31", "ws_from_be7"} : Panics(e, f) ]

\* copy into a buffer of e.len bytes pre-filled with e.pat
CheckCopy(e) ==
  LET a == e.a  n == e.bits  nb == NBytes(n)  len == e.len
      short == len < nb
      Filled(enc) == [i \in 1..len |-> IF i <= nb THEN enc[i] ELSE e.pat[i]]
      le == ToLe(a, n)  be == ToBe(a, n)
  IN [ cle |-> Eq(e, "cle", IF short THEN <<None, e.pat>> ELSE <<Some(nb), Filled(le)>>),
       cbe |-> Eq(e, "cbe", IF short THEN <<None, e.pat>> ELSE <<Some(nb), Filled(be)>>),
       ple |-> IF short THEN Panics(e, "ple") ELSE Eq(e, "ple", <<nb, Filled(le)>>),
       pbe |-> IF short THEN Panics(e, "pbe") ELSE Eq(e, "pbe", <<nb, Filled(be)>>) ]

\* decoding an arbitrary byte string x
DecLe(x, n) == IF Len(x) <= NBytes(n) /\ Lt2(Norm(x), n) THEN Some(Norm(x)) ELSE None
DecBe(x, n) == DecLe(Rev(x), n)

CheckDec(e) ==
  LET x == e.x  n == e.bits
      dl == DecLe(x, n)  db == DecBe(x, n)
      full == Len(x) = NBytes(n)
  IN [ try_le |-> Eq(e, "try_le", dl), try_be |-> Eq(e, "try_be", db),
       from_le |-> IF dl = None THEN Panics(e, "from_le") ELSE Eq(e, "from_le", dl[1]),
       from_be |-> IF db = None THEN Panics(e, "from_be") ELSE Eq(e, "from_be", db[1]),
       arr_le |-> IF ~full THEN ~Has(e, "arr_le")
                  ELSE IF dl = None THEN Panics(e, "arr_le") ELSE Eq(e, "arr_le", dl[1]),
       arr_be |-> IF ~full THEN ~Has(e, "arr_be")
                  ELSE IF db = None THEN Panics(e, "arr_be") ELSE Eq(e, "arr_be", db[1]) ]

CheckBytes(e) ==
  CASE e.op = "enc"  -> CheckEnc(e)
    [] e.op = "copy" -> CheckCopy(e)
    [] e.op = "dec"  -> CheckDec(e)
    [] OTHER         -> [unknown_op |-> FALSE]
=============================================================================
