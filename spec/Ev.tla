--------------------------------- MODULE Ev ---------------------------------
(* Helpers for reading one event record of a recorded execution.            *)
(* An event is the scenario (inputs) plus one field per call that returned, *)
(* plus  pan  = the names of the calls that panicked (their fields are      *)
(* absent).  Option values are <<>> (None) or <<v>> (Some v).               *)
EXTENDS BigNat

Has(e, f)    == f \in DOMAIN e
\* call f returned exactly v
Eq(e, f, v)  == f \in DOMAIN e /\ e[f] = v
\* call f panicked
Panics(e, f) == f \notin DOMAIN e /\ \E i \in DOMAIN e.pan : e.pan[i] = f
\* call f returned v, or panicked when  p  holds
EqOrPanic(e, f, p, v) == IF p THEN Panics(e, f) ELSE Eq(e, f, v)

\* union of two check records (functions from call names to BOOLEAN)
\* (LET-bound so that TLC evaluates each argument once, not once per field)
Merge(f, g) == LET ff == f  gg == g
               IN [x \in (DOMAIN ff) \cup (DOMAIN gg) |-> IF x \in DOMAIN ff THEN ff[x] ELSE gg[x]]

None == <<>>
Some(v) == <<v>>
\* Option from an overflow flag
Opt(overflow, v) == IF overflow THEN None ELSE Some(v)
=============================================================================
