------------------------------- MODULE Trace -------------------------------
(***************************************************************************)
(* Trace validation (binding B3): every event recorded from the real code  *)
(* is checked against the Layer-1 contract of the operation of the same    *)
(* name.  The trace specification is mismatch-tolerant: an event that does *)
(* not conform is reported (with the names of the failing calls) and the   *)
(* rest of the trace is still examined.  The trace is accepted iff no      *)
(* MISMATCH line was printed and every line was consumed (postcondition).  *)
(***************************************************************************)
EXTENDS UintCanon, Json, IOUtils, TLC

Rec == ndJsonDeserialize(IOEnv.TRACE)

VARIABLE l          \* position in the trace

Check(e) ==
  IF e.st # "ok" THEN [terminates |-> FALSE]     \* hang or crash of the code under test
  ELSE CASE e.g = "arith" -> CheckArith(e)
         [] e.g = "bits"  -> CheckBits(e)
         [] e.g = "conv"  -> CheckConv(e)
         [] e.g = "bytes" -> CheckBytes(e)
         [] e.g = "math"  -> CheckMath(e)
         [] e.g = "kern"  -> CheckKern(e)
         [] e.g = "text"  -> CheckText(e)
         [] e.g = "float" -> CheckFloat(e)
         [] e.g = "codec" -> CheckCodec(e)
         [] e.g = "fac"   -> CheckFac(e)
         [] e.g = "lit"   -> CheckLit(e)
         [] e.g = "canon" -> CheckCanon(e)
         [] OTHER -> [unknown_group |-> FALSE]

Fails(c) == LET cc == c IN {f \in DOMAIN cc : ~cc[f]}

TraceInit == l = 1
TraceNext ==
  /\ l <= Len(Rec)
  /\ LET e == Rec[l]
         bad == Fails(Check(e))
     IN IF bad = {} THEN TRUE ELSE PrintT(<<"MISMATCH", l, e.op, bad>>)
  /\ l' = l + 1
TraceSpec == TraceInit /\ [][TraceNext]_l

TraceAccepted ==
  IF TLCGet("stats").diameter = Len(Rec) + 1 THEN TRUE
  ELSE PrintT(<<"UNCONSUMED", TLCGet("stats").diameter, Len(Rec)>>) /\ FALSE
=============================================================================
