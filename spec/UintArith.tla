------------------------------ MODULE UintArith ------------------------------
(***************************************************************************)
(* Layer 1: add.rs, mul.rs, div.rs, special.rs (next_multiple_of).         *)
(* Each operation is defined by its mathematical meaning over BigNat for a *)
(* width  n  (BITS).  Operands are numbers < 2^n.                          *)
(***************************************************************************)
EXTENDS Ev

MaxU(n) == Ones(n)

\* ---- C01 ---------------------------------------------------------------
WrapAdd(a, b, n)      == Mod2(Add(a, b), n)
AddOverflows(a, b, n) == ~Lt2(Add(a, b), n)
WrapSub(a, b, n)      == IF Ge(a, b) THEN Sub(a, b) ELSE Sub(Add(a, Pow2(n)), b)
SubOverflows(a, b)    == Lt(a, b)
WrapNeg(a, n)         == IF IsZero(a) THEN Zero ELSE Sub(Pow2(n), a)
NegOverflows(a)       == ~IsZero(a)
SatAdd(a, b, n)       == IF AddOverflows(a, b, n) THEN MaxU(n) ELSE Add(a, b)
SatSub(a, b)          == Monus(a, b)
WrapSum(xs, n)        == Mod2(FoldLeftBN(xs), n)

CheckAddSub(e) ==
  LET a == e.a  b == e.b  n == e.bits
      s == WrapAdd(a, b, n)   so == AddOverflows(a, b, n)
      d == WrapSub(a, b, n)   do == SubOverflows(a, b)
      m == WrapNeg(a, n)      mo == NegOverflows(a)
  IN [ oadd   |-> Eq(e, "oadd", <<s, so>>),
       cadd   |-> Eq(e, "cadd", Opt(so, s)),
       sadd   |-> Eq(e, "sadd", SatAdd(a, b, n)),
       wadd   |-> Eq(e, "wadd", s),
       osub   |-> Eq(e, "osub", <<d, do>>),
       csub   |-> Eq(e, "csub", Opt(do, d)),
       ssub   |-> Eq(e, "ssub", SatSub(a, b)),
       wsub   |-> Eq(e, "wsub", d),
       adiff  |-> Eq(e, "adiff", AbsDiff(a, b)),
       add_vv |-> Eq(e, "add_vv", s), add_vr |-> Eq(e, "add_vr", s),
       add_rv |-> Eq(e, "add_rv", s), add_rr |-> Eq(e, "add_rr", s),
       add_av |-> Eq(e, "add_av", s), add_ar |-> Eq(e, "add_ar", s),
       sub_vv |-> Eq(e, "sub_vv", d), sub_vr |-> Eq(e, "sub_vr", d),
       sub_rv |-> Eq(e, "sub_rv", d), sub_rr |-> Eq(e, "sub_rr", d),
       sub_av |-> Eq(e, "sub_av", d), sub_ar |-> Eq(e, "sub_ar", d),
       oneg   |-> Eq(e, "oneg", <<m, mo>>),
       cneg   |-> Eq(e, "cneg", Opt(mo, m)),
       wneg   |-> Eq(e, "wneg", m),
       neg_v  |-> Eq(e, "neg_v", m), neg_r |-> Eq(e, "neg_r", m) ]

\* ---- C02 ---------------------------------------------------------------
WrapMul(a, b, n)      == Mod2(Mul(a, b), n)
MulOverflows(a, b, n) == ~Lt2(Mul(a, b), n)
WrapProd(xs, n)       == FoldLeftMulMod(xs, n)
\* x is the inverse of a in the ring mod 2^n
IsInvRing(a, x, n)    == Lt2(x, n) /\ Mod2(Mul(a, x), n) = Mod2(One, n)
HasInvRing(a, n)      == n > 0 /\ BitAt(a, 0) = 1

CheckMul(e) ==
  LET a == e.a  b == e.b  n == e.bits
      full == Mul(a, b)
      p == Mod2(full, n)   po == ~Lt2(full, n)
  IN [ omul |-> Eq(e, "omul", <<p, po>>),
       cmul |-> Eq(e, "cmul", Opt(po, p)),
       smul |-> Eq(e, "smul", IF po THEN MaxU(n) ELSE p),
       wmul |-> Eq(e, "wmul", p),
       mul_vv |-> Eq(e, "mul_vv", p), mul_vr |-> Eq(e, "mul_vr", p),
       mul_rv |-> Eq(e, "mul_rv", p), mul_rr |-> Eq(e, "mul_rr", p),
       mul_av |-> Eq(e, "mul_av", p), mul_ar |-> Eq(e, "mul_ar", p),
       inv  |-> /\ Has(e, "inv")
                /\ IF HasInvRing(a, n) THEN Len(e.inv) = 1 /\ IsInvRing(a, e.inv[1], n)
                                       ELSE e.inv = None ]

CheckSum(e) ==
  LET n == e.bits
      s == WrapSum(e.xs, n)
      p == WrapProd(e.xs, n)
  IN [ sum_v |-> Eq(e, "sum_v", s), sum_r |-> Eq(e, "sum_r", s),
       prod_v |-> Eq(e, "prod_v", p), prod_r |-> Eq(e, "prod_r", p) ]

\* widening product: value a*b in a register of e.bits + e.bits2 bits
CheckWMul(e) ==
  [ wide |-> Eq(e, "wide", Mul(e.a, e.b)) /\ Lt2(e.wide, e.bits + e.bits2),
    \* a result type of the wrong size is documented to panic
    wrong_size |-> Panics(e, "ws_wide701") /\ Panics(e, "ws_wide1") ]

\* ---- C03 ---------------------------------------------------------------
\* (q, r) is the Euclidean quotient and remainder of a by d # 0
IsDivRem(a, d, q, r)  == Lt(r, d) /\ Add(Mul(q, d), r) = a
CeilOf(q, r)          == IF IsZero(r) THEN q ELSE AddSmall(q, 1)
\* least multiple of d >= a :  ceil(a/d)*d
NextMultiple(q, r, d) == Mul(CeilOf(q, r), d)

CheckDiv(e) ==
  LET a == e.a  d == e.b  n == e.bits
      z == IsZero(d)
      \* the quotient/remainder pair is taken from the div_rem call itself and
      \* checked against the (unique) Euclidean contract; all other forms must
      \* then return exactly that pair.
      okqr == Has(e, "divrem") /\ ~z
              /\ Lt2(e.divrem[1], n) /\ Lt2(e.divrem[2], n)
              /\ IsDivRem(a, d, e.divrem[1], e.divrem[2])
      hasqr == Has(e, "divrem")
      q == IF hasqr THEN e.divrem[1] ELSE Zero
      r == IF hasqr THEN e.divrem[2] ELSE Zero
      nm == NextMultiple(q, r, d)
      nmfits == Lt2(nm, n)
      V(f, v) == IF z THEN Panics(e, f) ELSE hasqr /\ Eq(e, f, v)
  IN [ divrem |-> IF z THEN Panics(e, "divrem") ELSE okqr,
       cdiv |-> IF z THEN Eq(e, "cdiv", None) ELSE hasqr /\ Eq(e, "cdiv", Some(q)),
       crem |-> IF z THEN Eq(e, "crem", None) ELSE hasqr /\ Eq(e, "crem", Some(r)),
       wdiv |-> V("wdiv", q), wrem |-> V("wrem", r),
       ceil |-> V("ceil", CeilOf(q, r)),
       cnmo |-> IF z THEN Eq(e, "cnmo", None)
                ELSE hasqr /\ Eq(e, "cnmo", IF nmfits THEN Some(nm) ELSE None),
       nmo  |-> IF z \/ ~nmfits THEN Panics(e, "nmo") ELSE hasqr /\ Eq(e, "nmo", nm),
       div_vv |-> V("div_vv", q), div_vr |-> V("div_vr", q), div_rv |-> V("div_rv", q),
       div_rr |-> V("div_rr", q), div_av |-> V("div_av", q), div_ar |-> V("div_ar", q),
       rem_vv |-> V("rem_vv", r), rem_vr |-> V("rem_vr", r), rem_rv |-> V("rem_rv", r),
       rem_rr |-> V("rem_rr", r), rem_av |-> V("rem_av", r), rem_ar |-> V("rem_ar", r) ]

CheckArith(e) ==
  CASE e.op = "addsub" -> CheckAddSub(e)
    [] e.op = "mul"    -> CheckMul(e)
    [] e.op = "sum"    -> CheckSum(e)
    [] e.op = "wmul"   -> CheckWMul(e)
    [] e.op = "div"    -> CheckDiv(e)
    [] OTHER           -> [unknown_op |-> FALSE]
=============================================================================
