SPECIFICATION Spec
CONSTANTS
  Widths = {1, 7, 60, 63, 64, 65, 100, 127, 129, 250, 255, 257}
  NReg = 4
  Exhaustive = FALSE
  MaxDepth = 25
  Focus = {}
INVARIANTS Canonical TypeOK EmitHistories
CHECK_DEADLOCK FALSE
