------------------------------- MODULE BigNat -------------------------------
(***************************************************************************)
(* Natural numbers of unbounded size for TLC, whose own integers are       *)
(* 32-bit.  A BigNat is a little-endian sequence of bytes (0..255) without *)
(* a trailing zero byte; zero is <<>>.  Everything here is plain TLA+      *)
(* evaluated by TLC (the folds and the per-byte bitwise operators come     *)
(* from the CommunityModules on TLC's class path).  MC_BigNat checks every *)
(* operator against TLC's native arithmetic on small operands.             *)
(*                                                                         *)
(* All intermediate native integers stay below 2^31: a column of a product *)
(* has at most 2^15 terms of less than 2^16 each.                          *)
(***************************************************************************)
EXTENDS Integers, Sequences
LOCAL INSTANCE SequencesExt
LOCAL INSTANCE Bitwise

\* the Java-backed folds of SequencesExt, re-exported
FoldL(op(_, _), base, seq) == FoldLeft(op, base, seq)      \* op(acc, x), first to last
FoldR(op(_, _), seq, base) == FoldRight(op, seq, base)     \* op(x, acc), last to first
LastIdx(seq, Test(_))  == SelectLastInSeq(seq, Test)       \* 0 if none
FirstIdx(seq, Test(_)) == SelectInSeq(seq, Test)           \* 0 if none

BMax(a, b) == IF a >= b THEN a ELSE b
BMin(a, b) == IF a <= b THEN a ELSE b

(* TLC represents [i \in 1..n |-> e] as a lazy function whose Len() and      *)
(* element access re-evaluate e; nesting such values makes evaluation      *)
(* quadratic or worse.  Every operator below therefore returns a           *)
(* materialised sequence: Mat evaluates each element exactly once.         *)
Mat(f, n) == SubSeq(f, 1, n)

Zero == <<>>
One  == <<1>>

IsByteSeq(x) == /\ DOMAIN x = 1..Len(x)
                /\ \A i \in 1..Len(x) : x[i] \in 0..255

\* strip trailing zero bytes
Norm(x) == SubSeq(x, 1, SelectLastInSeq(x, LAMBDA b : b # 0))

IsNat(x) == IsByteSeq(x) /\ (Len(x) = 0 \/ x[Len(x)] # 0)

IsZero(x) == Len(x) = 0

At(x, i) == IF i <= Len(x) THEN x[i] ELSE 0

\* small native value of a (short) BigNat and back; only for values < 2^31
ToNat(x) == FoldRight(LAMBDA b, acc : acc * 256 + b, x, 0)

RECURSIVE FromNat(_)
FromNat(n) == IF n = 0 THEN <<>> ELSE <<n % 256>> \o FromNat(n \div 256)

(***************************************************************************)
(* Carry pass: turns a sequence of non-negative column values (each        *)
(* < 2^30) into a normalised byte sequence denoting  SUM c[i]*256^(i-1).   *)
(***************************************************************************)
CarryPass(c) ==
  LET st == FoldLeft(LAMBDA acc, x :
                        LET t == x + acc[1] IN <<t \div 256, Append(acc[2], t % 256)>>,
                     <<0, <<>>>>, c)
      cy == st[1]
  IN Norm(st[2] \o <<cy % 256, (cy \div 256) % 256, (cy \div 65536) % 256, cy \div 16777216>>)

\* comparison of normalised numbers: -1, 0, 1
Cmp(a, b) ==
  IF Len(a) # Len(b) THEN (IF Len(a) < Len(b) THEN -1 ELSE 1)
  ELSE LET k == SelectLastInSeq([i \in 1..Len(a) |-> a[i] - b[i]], LAMBDA d : d # 0)
       IN IF k = 0 THEN 0 ELSE IF a[k] < b[k] THEN -1 ELSE 1

Lt(a, b) == Cmp(a, b) < 0
Le(a, b) == Cmp(a, b) <= 0
Gt(a, b) == Cmp(a, b) > 0
Ge(a, b) == Cmp(a, b) >= 0

Add(a, b) == CarryPass([i \in 1..BMax(Len(a), Len(b)) |-> At(a, i) + At(b, i)])

\* a - b for a >= b (monus: result for a < b is meaningless; callers compare first)
Sub(a, b) ==
  LET st == FoldLeft(LAMBDA acc, i :
                        LET t == At(a, i) - At(b, i) - acc[1]
                        IN IF t < 0 THEN <<1, Append(acc[2], t + 256)>>
                                    ELSE <<0, Append(acc[2], t)>>,
                     <<0, <<>>>>, [i \in 1..Len(a) |-> i])
  IN Norm(st[2])

Monus(a, b) == IF Lt(a, b) THEN Zero ELSE Sub(a, b)
AbsDiff(a, b) == IF Lt(a, b) THEN Sub(b, a) ELSE Sub(a, b)

\* product by column sums (carry-save), then one carry pass
Mul(a, b) ==
  IF Len(a) = 0 \/ Len(b) = 0 THEN Zero
  ELSE LET la == Len(a)  lb == Len(b)
           col(k) == LET lo == BMax(1, k + 1 - lb)  hi == BMin(la, k)
                     IN FoldLeft(LAMBDA acc, i : acc + a[i] * b[k + 1 - i], 0,
                                 [i \in 1..(hi - lo + 1) |-> lo + i - 1])
       IN CarryPass([k \in 1..(la + lb - 1) |-> col(k)])

\* product with a small native factor 0 <= k < 2^22
MulSmall(a, k) == CarryPass([i \in 1..Len(a) |-> a[i] * k])
\* a + k for a small native k < 2^30
AddSmall(a, k) == IF Len(a) = 0 THEN CarryPass(<<k>>)
                  ELSE CarryPass([i \in 1..Len(a) |-> IF i = 1 THEN a[1] + k ELSE a[i]])

\* <<quotient, remainder>> of a by a small native divisor 0 < k < 2^22
DivModSmall(a, k) ==
  LET st == FoldRight(LAMBDA b, acc :
                        LET t == acc[1] * 256 + b IN <<t % k, <<t \div k>> \o acc[2]>>,
                      a, <<0, <<>>>>)
  IN <<Norm(st[2]), st[1]>>

(***************************************************************************)
(* Powers of two, truncation, shifts.  k is a native integer.              *)
(***************************************************************************)
Pow2(k) == Mat([i \in 1..(k \div 8 + 1) |-> IF i = k \div 8 + 1 THEN 2^(k % 8) ELSE 0], k \div 8 + 1)

\* x mod 2^k
Mod2(x, k) ==
  LET nb == k \div 8  r == k % 8 IN
  IF Len(x) <= nb THEN x
  ELSE Norm([i \in 1..(nb + (IF r = 0 THEN 0 ELSE 1)) |->
                IF i <= nb THEN x[i] ELSE x[i] % (2^r)])

\* x < 2^k
Lt2(x, k) ==
  LET nb == k \div 8  r == k % 8 IN
  \/ Len(x) <= nb
  \/ Len(x) = nb + 1 /\ x[nb + 1] < 2^r

\* floor(x / 2^k)
Div2(x, k) ==
  LET nb == k \div 8  r == k % 8  n == Len(x) - nb IN
  IF n <= 0 THEN Zero
  ELSE IF r = 0 THEN SubSeq(x, nb + 1, Len(x))
  ELSE Norm([i \in 1..n |-> (x[nb + i] \div 2^r) + (At(x, nb + i + 1) % 2^r) * 2^(8 - r)])

\* x * 2^k
Shl(x, k) ==
  IF Len(x) = 0 THEN Zero
  ELSE LET nb == k \div 8  r == k % 8 IN
       IF r = 0 THEN Mat([i \in 1..(nb + Len(x)) |-> IF i <= nb THEN 0 ELSE x[i - nb]], nb + Len(x))
       ELSE Norm([i \in 1..(nb + Len(x) + 1) |->
                    IF i <= nb THEN 0
                    ELSE ((At(x, i - nb) * 2^r) % 256) + (IF i - nb >= 2 THEN x[i - nb - 1] \div 2^(8 - r) ELSE 0)])

\* bit i (0-based) of x
BitAt(x, i) == (At(x, i \div 8 + 1) \div 2^(i % 8)) % 2

\* number of significant bits (0 for zero)
RECURSIVE ByteBitLen(_)
ByteBitLen(b) == IF b = 0 THEN 0 ELSE 1 + ByteBitLen(b \div 2)
BitLen(x) == IF Len(x) = 0 THEN 0 ELSE 8 * (Len(x) - 1) + ByteBitLen(x[Len(x)])

\* number of one bits
RECURSIVE BytePop(_)
BytePop(b) == IF b = 0 THEN 0 ELSE (b % 2) + BytePop(b \div 2)
PopCount(x) == FoldLeft(LAMBDA acc, b : acc + BytePop(b), 0, x)

\* number of trailing zero bits (x # 0)
RECURSIVE ByteTz(_)
ByteTz(b) == IF b % 2 = 1 THEN 0 ELSE 1 + ByteTz(b \div 2)
TrailingZeros(x) ==
  LET k == SelectInSeq(x, LAMBDA b : b # 0)
  IN 8 * (k - 1) + ByteTz(x[k])

\* the k-bit binary expansion, bit 0 first, as a sequence of 0/1
ToBits(x, k) == Mat([i \in 1..k |-> BitAt(x, i - 1)], k)
\* value of a bit sequence (bit 0 first)
FromBits(bs) ==
  LET n == Len(bs) IN
  Norm([j \in 1..((n + 7) \div 8) |->
          FoldLeft(LAMBDA acc, t : acc + (IF 8 * (j - 1) + t <= n THEN bs[8 * (j - 1) + t] * 2^(t - 1) ELSE 0),
                   0, <<1, 2, 3, 4, 5, 6, 7, 8>>)])

\* bytewise logic
BAnd(a, b) == Norm([i \in 1..BMin(Len(a), Len(b)) |-> a[i] & b[i]])
BOr(a, b)  == Mat([i \in 1..BMax(Len(a), Len(b)) |-> At(a, i) | At(b, i)], BMax(Len(a), Len(b)))
BXor(a, b) == Norm([i \in 1..BMax(Len(a), Len(b)) |-> At(a, i) ^^ At(b, i)])
\* complement within k bits: 2^k - 1 - x   (x < 2^k)
NotK(x, k) ==
  LET nb == k \div 8  r == k % 8 IN
  Norm([i \in 1..(nb + (IF r = 0 THEN 0 ELSE 1)) |->
          IF i <= nb THEN 255 - At(x, i) ELSE (2^r - 1) - At(x, i)])
\* 2^k - 1
Ones(k) == NotK(Zero, k)

\* x padded / truncated to exactly n bytes (little endian)
ToBytes(x, n) == Mat([i \in 1..n |-> At(x, i)], n)
Rev(s) == LET n == Len(s) IN Mat([i \in 1..n |-> s[n + 1 - i]], n)

(***************************************************************************)
(* General division by binary long division; used only where no witness    *)
(* form is available (small operands).  <<q, r>>, d # 0.                   *)
(***************************************************************************)
DivMod(n, d) ==
  LET nb == BitLen(n)
      st == FoldLeft(LAMBDA acc, j :
                        LET i  == nb - j      \* bit index, from the top
                            r2 == AddSmall(Shl(acc[2], 1), BitAt(n, i))
                        IN IF Ge(r2, d) THEN <<Add(acc[1], Pow2(i)), Sub(r2, d)>>
                                        ELSE <<acc[1], r2>>,
                     <<Zero, Zero>>, [j \in 1..nb |-> j])
  IN st

\* a^e for native e by square and multiply (exact, may be large)
RECURSIVE PowNat(_, _)
PowNat(a, e) == IF e = 0 THEN One
                ELSE LET h == PowNat(a, e \div 2)  s == Mul(h, h)
                     IN IF e % 2 = 1 THEN Mul(s, a) ELSE s

\* sum of a sequence of numbers; product of a sequence reduced mod 2^n at each step
FoldLeftBN(xs) == FoldLeft(LAMBDA acc, x : Add(acc, x), Zero, xs)
FoldLeftMulMod(xs, n) == FoldLeft(LAMBDA acc, x : Mod2(Mul(acc, x), n), Mod2(One, n), xs)

\* Horner evaluation of a big-endian digit sequence of BigNat digits in BigNat base
HornerBE(ds, base) == FoldLeft(LAMBDA acc, d : Add(Mul(acc, base), d), Zero, ds)
=============================================================================
