SPECIFICATION Spec
CONSTANTS
  Widths = {0, 1, 2, 7, 8, 9, 11, 13, 16}
  Extra = {65535, 65536, 99999, 100000, 999999, 1000000, 1048575, 1048576, 16777215, 16777216, 2097151, 2097152, 2147483646, 1000000000, 4294967, 305419896, 123456789, 2147483645, 1073741824, 1073741823}
  PadWidths = {0, 1, 2, 4, 9, 14, 35}
INVARIANTS DigitsNative ParsesBack BaseDigits Padding
CHECK_DEADLOCK FALSE
