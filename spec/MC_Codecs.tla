------------------------------ MODULE MC_Codecs ------------------------------
(***************************************************************************)
(* Self-consistency of the codec specification (Codecs.tla), checked by    *)
(* TLC without any implementation in the loop.  Codecs.tla is the oracle   *)
(* of C16 / C17; it defines every format twice over - an ENCODER written   *)
(* from the format's definition and a DENOTATION predicate for decoders.   *)
(* This model checks that the two agree:                                   *)
(*   value states  (kind "v"): for every width n and every v < 2^n the     *)
(*     encoder's output is accepted by the denotation as exactly v, with   *)
(*     exactly its length consumed, also when bytes follow it;             *)
(*   string states (kind "x"): for every byte string x over an alphabet of *)
(*     header-relevant bytes, acceptance by the generative definition      *)
(*     ("x is Enc(v) for the v read from x") coincides with an ANALYTIC    *)
(*     well-formedness predicate written here from the format's rules      *)
(*     (minimal length octets, no leading zero, sign octet), and the       *)
(*     lenient denotations are functional and imply the range bound.       *)
(* A slip in Codecs.tla - which would make the conformance check compare   *)
(* the implementation with a wrong oracle - shows up here.                 *)
(***************************************************************************)
EXTENDS Codecs, TLC
CONSTANTS Widths,      \* widths whose complete value range is enumerated
          Extra,       \* further values (natural numbers below 2^31 - 1), taken at width 31
          XWidths,     \* widths at which input strings are judged
          Alphabet,    \* bytes from which input strings are built
          MaxLen       \* maximal input length
VARIABLES kind, n, v, x
vars == <<kind, n, v, x>>

RECURSIVE Pow2N(_)
Pow2N(k) == IF k = 0 THEN 1 ELSE 2 * Pow2N(k - 1)

Init == \/ kind = "v" /\ n \in Widths /\ v \in 0..(Pow2N(n) - 1) /\ x = <<>>
        \/ kind = "v" /\ n = 31 /\ v \in Extra /\ x = <<>>
        \/ kind = "x" /\ n \in XWidths /\ v = 0 /\ x = <<>>
\* string states grow one byte at a time, so that TLC's workers share the enumeration
Next == /\ kind = "x" /\ Len(x) < MaxLen
        /\ \E b \in Alphabet : x' = Append(x, b)
        /\ UNCHANGED <<kind, n, v>>
Spec == Init /\ [][Next]_vars

V == FromNat(v)
Tails == {<<>>, <<0>>, <<255, 1>>}

\* ---------------------------------------------------------------- value states
RlpRoundTrip ==
  kind = "v" =>
    LET enc == RlpEnc(V) IN
    /\ \A t \in Tails : RlpCanonical(enc \o t, n) = Ok2(V, Len(enc))
    /\ RlpDenotes(enc, V, n)
    /\ Len(enc) <= 1 + NBytes(n)                                  \* the MaxEncodedLen the integrations declare

DerRoundTrip ==
  kind = "v" =>
    LET enc == DerEnc(V) IN
    /\ DerCanonical(enc, n) = Ok1(V)
    /\ \A t \in Tails \ {<<>>} : DerCanonical(enc \o t, n) = Err  \* from_der consumes the whole input
    /\ enc[1] = 2 /\ enc[2] = Len(enc) - 2                        \* short-form length at these widths

ScaleRoundTrip ==
  kind = "v" =>
    LET c == ScaleCompactEnc(V)
        f == ScaleFixedEnc(V, n)
    IN /\ \A t \in Tails : CompactDenotes(c \o t, V, Len(c), n)
       /\ \A t \in Tails : ScaleFixedDenotes(f \o t, V, Len(f), n)
       \* the four compact modes partition the values by size
       /\ Len(c) = (IF v < 64 THEN 1 ELSE IF v < 16384 THEN 2 ELSE IF v < 1073741824 THEN 4 ELSE 1 + Len(V))
       /\ c[1] % 4 = (IF v < 64 THEN 0 ELSE IF v < 16384 THEN 1 ELSE IF v < 1073741824 THEN 2 ELSE 3)

PgRoundTrip ==
  kind = "v" =>
    \A t \in PgTypes :
      LET hx == HexMin(V)
          enc == PgEnc(t, V, n, hx)
      IN enc[1] => PgDenotes(t, enc[2], V, n)
\* NUMERIC is written without trailing zero digits, with the digit count in the header and the weight of the first digit
PgNumericShape ==
  kind = "v" =>
    LET e == PgNumeric(V)
        nd == (Len(e) - 8) \div 2
    IN /\ Len(e) = 8 + 2 * nd /\ SubSeq(e, 1, 2) = NatBE(nd, 2) /\ SubSeq(e, 5, 8) = <<0, 0, 0, 0>>
       /\ (nd > 0 => (e[Len(e) - 1] # 0 \/ e[Len(e)] # 0))
       /\ (nd > 0 => e[9] * 256 + e[10] \in 1..9999)                                  \* no leading zero digit either
       /\ (v = 0) = (nd = 0)
       /\ SmallBE(SubSeq(e, 3, 4)) = (IF v < 10000 THEN 0 ELSE IF v < 100000000 THEN 1 ELSE 2)
\* the narrow column types refuse exactly the values outside their range
PgRange ==
  kind = "v" =>
    /\ PgEnc("pg_bool", V, n, <<>>)[1] = (v < 2)
    /\ PgEnc("pg_int2", V, n, <<>>)[1] = (v < 32768)
    /\ PgEnc("pg_int4", V, n, <<>>)[1]
    /\ PgEnc("pg_oid", V, n, <<>>)[1]

TextRoundTrip ==
  kind = "v" =>
    /\ JsonDenotes(Quoted(HexMin(V)), V, n)
    /\ JsonDenotes(<<32>> \o Quoted(HexMin(V)) \o <<10>>, V, n)
    /\ FromStrOutcome(<<"ok", V>>, HexMin(V), n)
    /\ FromStrOutcome(<<"ok", V>>, HexFull(V, n), n)
    /\ Len(HexFull(V, n)) = (IF n = 0 THEN 3 ELSE 2 + 2 * NBytes(n))

\* two different values never share an encoding (checked against the successor; with the round trips above the
\* decoders being functions gives full injectivity)
Injective ==
  (kind = "v" /\ Lt2(FromNat(v + 1), n)) =>
    LET W == FromNat(v + 1) IN
    /\ RlpEnc(V) # RlpEnc(W) /\ DerEnc(V) # DerEnc(W) /\ ScaleCompactEnc(V) # ScaleCompactEnc(W)
    /\ PgNumeric(V) # PgNumeric(W) /\ HexMin(V) # HexMin(W)
    \* RLP and DER encodings order like the values (length first, then bytes): canonical encodings sort
    /\ Len(RlpEnc(V)) <= Len(RlpEnc(W)) /\ Len(DerEnc(V)) <= Len(DerEnc(W))

\* --------------------------------------------------------------- string states
\* RLP, analytic: one item; a single byte below 0x80 stands for itself; otherwise a short string header (long headers
\* cannot occur below 56 payload bytes) whose payload has no leading zero and is not a single byte below 0x80
RlpAnalytic ==
  IF Len(x) = 0 THEN <<FALSE, Zero, 0>>
  ELSE IF x[1] < 128 THEN <<x[1] # 0, FromNat(x[1]), 1>>                  \* the integer 0 is the empty string 0x80
  ELSE IF x[1] <= 183 THEN
       LET l == x[1] - 128 IN
       IF Len(x) < 1 + l THEN <<FALSE, Zero, 0>>
       ELSE LET p == SubSeq(x, 2, 1 + l) IN
            <<(l = 0 \/ p[1] # 0) /\ ~(l = 1 /\ p[1] < 128), BEVal(p), 1 + l>>
  ELSE IF x[1] <= 191 THEN <<FALSE, Zero, 0>>                               \* long form: never minimal for <= 55 bytes
  ELSE <<FALSE, Zero, 0>>                                                   \* a list
RlpAgree ==
  kind = "x" =>
    LET a == RlpAnalytic IN
    /\ RlpCanonical(x, n) = (IF a[1] /\ Lt2(a[2], n) THEN Ok2(a[2], a[3]) ELSE Err)
    \* whatever the canonical decoders accept, the lenient one reads as the same value
    /\ (RlpCanonical(x, n) # Err => RlpDenotes(x, RlpCanonical(x, n)[2], n))
    \* the lenient denotation is a function of x, and only of the item at the front
    /\ (RlpHeader(x)[1] => RlpDenotes(x, BEVal(RlpPayload(x)), n) = Lt2(BEVal(RlpPayload(x)), n))

\* DER, analytic: tag 2, definite short length equal to the rest of the input, at least one content octet, non-negative,
\* and a leading zero octet only in front of an octet with its top bit set
DerAnalytic ==
  /\ Len(x) >= 3 /\ x[1] = 2 /\ x[2] < 128 /\ x[2] = Len(x) - 2
  /\ x[3] < 128
  /\ (x[3] = 0 => (Len(x) = 3 \/ x[4] >= 128))
DerAgree ==
  kind = "x" =>
    LET val == IF Len(x) >= 3 THEN BEVal(SubSeq(x, 3, Len(x))) ELSE Zero IN
    DerCanonical(x, n) = (IF DerAnalytic /\ Lt2(val, n) THEN Ok1(val) ELSE Err)

\* SCALE compact: the parse is total, consumes what the mode says, and the encoder is its minimal inverse
CompactAgree ==
  kind = "x" =>
    LET p == ScaleCompactParse(x) IN
    /\ p[1] => /\ p[3] <= Len(x)
               /\ p[3] = (CASE x[1] % 4 = 0 -> 1 [] x[1] % 4 = 1 -> 2 [] x[1] % 4 = 2 -> 4 [] OTHER -> 5 + x[1] \div 4)
               /\ CompactDenotes(x, p[2], p[3], n) = Lt2(p[2], n)
               \* re-encoding the parsed value never gets longer, and is the same bytes iff the input was minimal
               /\ Len(ScaleCompactEnc(p[2])) <= p[3]
               /\ (ScaleCompactEnc(p[2]) = SubSeq(x, 1, p[3])) =
                    (CASE x[1] % 4 = 0 -> TRUE
                       [] x[1] % 4 = 1 -> ~Lt2(p[2], 6)
                       [] x[1] % 4 = 2 -> ~Lt2(p[2], 14)
                       [] OTHER -> ~Lt2(p[2], 30) /\ x[p[3]] # 0)
    /\ ~p[1] => \A w \in {Zero, One} : ~CompactDenotes(x, w, p[3], n)

\* postgres: the fixed-size integer types, BOOL, BIT and BYTEA denote at most one value, inside the range
PgAgree ==
  kind = "x" =>
    /\ \A t \in {"pg_int2", "pg_int4", "pg_int8", "pg_oid", "pg_bytea"} :
         LET w == BEVal(x) IN
         /\ PgDenotes(t, x, w, n) => Lt2(w, n)
         /\ (t # "pg_bytea" /\ PgDenotes(t, x, w, n)) => PgEnc(t, w, n, <<>>) = <<TRUE, x>>
    /\ (Len(x) >= 4 /\ x[1] < 128) =>
         LET len == SmallBE(SubSeq(x, 1, 4))
             w == Div2(BEVal(SubSeq(x, 5, Len(x))), (8 - (len % 8)) % 8)
         IN \* a BIT image of exactly n bits with clean padding is what the encoder writes
            (PgDenotes("pg_bit", x, w, n) /\ len = n /\ n > 0 /\ Shl(w, (8 - (len % 8)) % 8) = BEVal(SubSeq(x, 5, Len(x))))
              => PgEnc("pg_bit", w, n, <<>>) = <<TRUE, x>>
=============================================================================
