SPECIFICATION Spec
CONSTANTS
  Formats <- FormatsSmall
INVARIANTS Fields RoundHalf Near RoundTrip Monotone
CHECK_DEADLOCK FALSE
