------------------------------- MODULE MC_Text -------------------------------
(***************************************************************************)
(* Self-consistency of the text specification (UintText.tla, the oracle of *)
(* C09), checked by TLC without any implementation in the loop: the        *)
(* formatting definitions (DigitText, PadIntegral), the digit-sequence     *)
(* contracts (IsBaseLE, FromBaseOutcome) and the parsing contracts         *)
(* (ParseOutcome, FromStrRadixOutcome, FromStrOutcome) are written         *)
(* independently of one another in UintText.tla; here each text the        *)
(* formatter may produce is fed to the parser contracts, and the digits    *)
(* are recomputed with TLC's native integers.                              *)
(***************************************************************************)
EXTENDS UintText, TLC
CONSTANTS Widths,     \* widths whose complete value range is enumerated
          Extra,      \* further natural numbers (< 2^31 - 1), taken at width 31
          PadWidths   \* minimum field widths tried with every flag combination
VARIABLES n, v, tr
vars == <<n, v, tr>>

RECURSIVE Pow2N(_)
Pow2N(k) == IF k = 0 THEN 1 ELSE 2 * Pow2N(k - 1)
Traits == {"d", "?", "b", "o", "x", "X"}

\* the value is chosen in Next, so that TLC's workers share the enumeration (initial states are computed by one thread)
Init == tr \in Traits /\ n \in Widths \cup {31} /\ v = -1
Next == /\ v = -1
        /\ v' \in (IF n = 31 /\ 31 \notin Widths THEN Extra ELSE 0..(Pow2N(n) - 1))
        /\ UNCHANGED <<n, tr>>
Spec == Init /\ [][Next]_vars

V == FromNat(v)
r == Radix(tr)
upper == tr = "X"
txt == DigitText(V, r, upper)

\* native digits of v, most significant first
RECURSIVE NatDigits(_, _)
NatDigits(x, b) == IF x < b THEN <<x>> ELSE Append(NatDigits(x \div b, b), x % b)

\* the formatter's digits are the native digits, in the alphabet of the trait
DigitsNative0 ==
  LET nd == NatDigits(v, r) IN
  /\ Len(txt) = Len(nd)
  /\ \A i \in 1..Len(nd) : txt[i] = (IF nd[i] < 10 THEN 48 + nd[i] ELSE IF upper THEN 55 + nd[i] ELSE 87 + nd[i])
  /\ (v > 0 => txt[1] # 48)                                               \* no leading zero

\* what is printed parses back, with and without the prefix, in either letter case
ParsesBack0 ==
  /\ ParseOutcome(<<"ok", V>>, txt, r, n)
  /\ FromStrRadixOutcome(<<"ok", V>>, txt, FromNat(r), n)
  /\ FromStrOutcome(<<"ok", V>>, Prefix(tr) \o txt, n)
  \* separators are skipped wherever they stand
  /\ ParseOutcome(<<"ok", V>>, <<95>> \o txt \o <<95>>, r, n)
  \* a hexadecimal text read as decimal is an error exactly when it holds a letter (and never the value, unless equal)
  /\ (r = 16 /\ \E i \in 1..Len(txt) : txt[i] > 57) => ~ParseOutcome(<<"ok", V>>, txt, 10, n)
  \* no other value is allowed for the same text
  /\ ~ParseOutcome(<<"ok", FromNat(v + 1)>>, txt, r, n)
  \* one more digit than the width holds is an overflow, never a value
  /\ LET big == txt \o Repeat(48, n + 1) IN
       v > 0 => (ParseOutcome(<<"overflow">>, big, r, n) /\ ~ParseOutcome(<<"ok", V>>, big, r, n))

\* the digit-iterator contract and the from_base contract agree with the formatter
BaseDigits0 ==
  LET nd == NatDigits(v, r)
      le == IF v = 0 THEN <<>> ELSE [i \in 1..Len(nd) |-> FromNat(nd[Len(nd) + 1 - i])]
      b == FromNat(r)
  IN /\ IsBaseLE(le, b, V)
     /\ (v > 0 => ~IsBaseLE(Append(le, Zero), b, V))                      \* a leading zero digit is not allowed
     /\ FromBaseOutcome(<<"ok", V>>, le, b, n, LAMBDA p : HornerLE(p, b))
     /\ FromBaseOutcome(<<"ok", V>>, Rev(le), b, n, LAMBDA p : HornerLE(Rev(p), b))
     /\ ~FromBaseOutcome(<<"ok", FromNat(v + 1)>>, le, b, n, LAMBDA p : HornerLE(p, b))
     \* a digit equal to the base is refused, whatever stands before it
     /\ ~FromBaseOutcome(<<"ok", V>>, Append(le, b), b, n, LAMBDA p : HornerLE(p, b))
     /\ FromBaseOutcome(<<"baddigit", b, b>>, Append(le, b), b, n, LAMBDA p : HornerLE(p, b))

\* pad_integral: the result has the requested minimum width, holds sign, prefix and digits in this order, and nothing
\* but fill characters (or zeros between prefix and digits) is added
Padding0 ==
  \A w \in PadWidths, plus \in BOOLEAN, alt \in BOOLEAN, zero \in BOOLEAN, al \in {"<", "^", ">"} :
    LET out == PadIntegral(Prefix(tr), txt, plus, alt, zero, w, 42, al)
        body == (IF plus THEN <<43>> ELSE <<>>) \o (IF alt THEN Prefix(tr) ELSE <<>>) \o txt
        stars == SelectSeq(out, LAMBDA c : c = 42)
        rest == SelectSeq(out, LAMBDA c : c # 42)
    IN /\ Len(out) = (IF w > Len(body) THEN w ELSE Len(body))
       /\ IF zero
          THEN /\ Len(stars) = 0
               /\ SubSeq(out, 1, Len(body) - Len(txt)) = SubSeq(body, 1, Len(body) - Len(txt))
               /\ SubSeq(out, Len(out) - Len(txt) + 1, Len(out)) = txt
               /\ \A i \in (Len(body) - Len(txt) + 1)..(Len(out) - Len(txt)) : out[i] = 48
          ELSE /\ rest = body
               /\ Len(stars) = Len(out) - Len(body)
               /\ (al = "<" => SubSeq(out, 1, Len(body)) = body)
               /\ (al = ">" => SubSeq(out, Len(out) - Len(body) + 1, Len(out)) = body)
               /\ (al = "^" => LET l == (Len(out) - Len(body)) \div 2 IN SubSeq(out, l + 1, l + Len(body)) = body)
       \* with the zero flag the text still parses back through FromStr when the prefix is shown or the base is 10
       /\ (zero /\ ~plus /\ (alt \/ r = 10)) => FromStrOutcome(<<"ok", V>>, out, n)
DigitsNative == v >= 0 => DigitsNative0
ParsesBack == v >= 0 => ParsesBack0
BaseDigits == v >= 0 => BaseDigits0
Padding == v >= 0 => Padding0
=============================================================================
