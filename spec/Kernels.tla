------------------------------- MODULE Kernels -------------------------------
(***************************************************************************)
(* Layer 1 for ruint::algorithms (limb-slice kernels).  A limb slice is    *)
(* logged as 8*len raw little-endian bytes: its number is Norm(bytes), its *)
(* length in bits is 8*Len(bytes).  Every contract is a balance equation   *)
(* "inputs = result limbs +- returned word * 2^(64 len)" or the Euclidean  *)
(* relation; no division is performed by the specification.                *)
(***************************************************************************)
EXTENDS UintMath

SV(x)    == Norm(x)          \* value of a slice
SBits(x) == 8 * Len(x)       \* its size in bits
\* slice s (raw) holds exactly the number v in a slice of nbytes bytes
Holds(s, v, nbytes) == Len(s) = nbytes /\ Norm(s) = v
W64 == Pow2(64)

\* ---- C14 ---------------------------------------------------------------
\* generic layout: quotient slice as long as the numerator, remainder slice as long as the divisor
DivOut(e, f, n, d) ==
  /\ Has(e, f)
  /\ Len(e[f][1]) = Len(n) /\ Len(e[f][2]) = Len(d)
  /\ IsDivRem(SV(n), SV(d), SV(e[f][1]), SV(e[f][2]))

CheckKDiv(e) ==
  [ out |-> IF IsZero(SV(e.d)) THEN Panics(e, "out") ELSE DivOut(e, "out", e.n, e.d) ]

CheckKDivNxM(e) == [ out |-> DivOut(e, "out", e.n, e.d) ]

\* normalised variant: quotient left in numerator[n..], remainder in numerator[..n]
CheckKDivNxMNorm(e) ==
  LET nb == Len(e.d)  o == e.out
  IN [ out |-> /\ Has(e, "out") /\ Len(o) = Len(e.n)
               /\ IsDivRem(SV(e.n), SV(e.d), Norm(SubSeq(o, nb + 1, Len(o))), Norm(SubSeq(o, 1, nb))) ]

\* n-by-1 and n-by-2: quotient in place, remainder returned
SmallOut(e, f) ==
  /\ Has(e, f) /\ Len(e[f][1]) = Len(e.n)
  /\ IsDivRem(SV(e.n), e.d, SV(e[f][1]), e[f][2])

CheckKDivSmall(e, topbit) ==
  [ out  |-> SmallOut(e, "out"),
    norm |-> IF BitAt(e.d, topbit) = 1 THEN SmallOut(e, "norm") ELSE ~Has(e, "norm") ]

CheckKDiv2x1(e) ==
  LET Ok(f) == Has(e, f) /\ Lt2(e[f][1], 64) /\ IsDivRem(e.u, e.d, e[f][1], e[f][2])
  IN [ mg10 |-> Ok("mg10"), ref |-> Ok("ref") ]

CheckKDiv3x2(e) ==
  [ mg10 |-> /\ Has(e, "mg10") /\ Lt2(e.mg10[1], 64)
             /\ IsDivRem(Add(Shl(e.u21, 64), e.u0), e.d, e.mg10[1], e.mg10[2]) ]

\* v = floor((2^k - 1) / d) - 2^64   <=>   (v + 2^64) * d <= 2^k - 1 < (v + 2^64 + 1) * d
IsReciprocal(d, v, k) ==
  LET t == Add(v, W64) IN
  /\ Lt2(v, 64)
  /\ Le(Mul(t, d), Ones(k))
  /\ Gt(Mul(AddSmall(t, 1), d), Ones(k))

CheckKRecip(e) ==
  [ mg10 |-> Has(e, "mg10") /\ IsReciprocal(e.d, e.mg10, 128),
    ref  |-> Has(e, "ref") /\ IsReciprocal(e.d, e.ref, 128) ]
CheckKRecip2(e) == [ mg10 |-> Has(e, "mg10") /\ IsReciprocal(e.d, e.mg10, 192) ]

\* ---- C15 ---------------------------------------------------------------
\* result limbs and carry word of a total t in a slice of nbytes bytes
LimbsAndCarry(e, f, t, nbytes) ==
  /\ Has(e, f) /\ Holds(e[f][1], Mod2(t, 8 * nbytes), nbytes) /\ e[f][2] = Div2(t, 8 * nbytes)

\* acc - p = result limbs - borrow * 2^L  with result < 2^L  (the exact borrow word)
LimbsAndBorrow(e, f, acc, p, nbytes) ==
  LET L == 8 * nbytes
      bw == IF Ge(acc, p) THEN Zero ELSE Div2(Add(Sub(p, acc), Ones(L)), L)     \* ceil((p-acc)/2^L)
      lim == IF Ge(acc, p) THEN Sub(acc, p) ELSE Sub(Shl(bw, L), Sub(p, acc))
  IN /\ Has(e, f) /\ Holds(e[f][1], lim, nbytes) /\ e[f][2] = bw

CheckKAddMul(e) ==
  LET t == Add(SV(e.acc), Mul(SV(e.a), SV(e.b)))
      nb == Len(e.acc)  L == 8 * nb
      same == Len(e.a) = nb /\ Len(e.b) = nb
  IN [ out |-> /\ Has(e, "out") /\ Holds(e.out[1], Mod2(t, L), nb) /\ e.out[2] = ~Lt2(t, L),
       n   |-> IF same THEN Has(e, "n") /\ Holds(e.n, Mod2(t, L), nb) ELSE Panics(e, "n") ]

CheckKNx1(e) ==
  LET acc == SV(e.acc)  a == SV(e.a)  b == e.b  nb == Len(e.acc)
      c == IF BitAt(b, 0) = 1 THEN One ELSE Zero
  IN [ mul    |-> LimbsAndCarry(e, "mul", Mul(acc, b), nb),
       addmul |-> LimbsAndCarry(e, "addmul", Add(acc, Mul(a, b)), nb),
       submul |-> LimbsAndBorrow(e, "submul", acc, Mul(a, b), nb),
       add    |-> LimbsAndCarry(e, "add", Add(acc, b), nb),
       \* the word going in (b) is a full carry / borrow word, the word coming out is exact; for an empty slice it passes through
       adc    |-> LimbsAndCarry(e, "adc", Add(Add(acc, a), b), nb),
       sbb    |-> LimbsAndBorrow(e, "sbb", acc, Add(a, b), nb),
       cmp    |-> Eq(e, "cmp", Cmp(acc, a) + 1) ]

CheckKWord(e) ==
  LET x == e.x  y == e.y  c == e.c
      b == IF BitAt(c, 0) = 1 THEN One ELSE Zero
      s1 == Add(Add(x, y), c)        \* adc takes a full carry word
      s2 == Add(Add(x, y), b)
      p == Add(y, b)
      under == Lt(x, p)
      diff == IF under THEN Sub(Add(x, W64), p) ELSE Sub(x, p)
      \* sbb takes a full borrow word: x - y - c = r - bw * 2^64 with the exact borrow word bw in 0..2
      pf == Add(y, c)
      bw == IF Ge(x, pf) THEN Zero ELSE Div2(Add(Sub(pf, x), Ones(64)), 64)
      rf == IF Ge(x, pf) THEN Sub(x, pf) ELSE Sub(Shl(bw, 64), Sub(pf, x))
  IN [ adc  |-> Eq(e, "adc", <<Mod2(s1, 64), Div2(s1, 64)>>),
       sbb  |-> Eq(e, "sbb", <<rf, bw>>),
       cadd |-> Eq(e, "cadd", <<Mod2(s2, 64), ~Lt2(s2, 64)>>),
       bsub |-> Eq(e, "bsub", <<diff, under>>) ]

\* shift by 0 <= s < 64: shifted limbs and the bits shifted out
CheckKShift(e) ==
  LET x == SV(e.x)  s == e.s  nb == Len(e.x)  L == 8 * nb
      t == Shl(x, s)
  IN [ left  |-> /\ Has(e, "left") /\ Holds(e.left[1], Mod2(t, L), nb) /\ e.left[2] = Div2(t, L),
       \* the bits shifted out on the right are returned left-aligned in a word
       right |-> /\ Has(e, "right") /\ Holds(e.right[1], Div2(x, s), nb)
                 /\ e.right[2] = (IF nb = 0 THEN Zero ELSE Mod2(Shl(Mod2(x, s), 64 - s), 64)) ]

\* ---- C11 (array kernels) -------------------------------------------------
CheckKRedc(e) ==
  LET a == SV(e.a)  b == SV(e.b)  m == SV(e.m)  nb == Len(e.m)
  IN [ pre |-> RedcPre(a, b, m, e.inv),
       mul |-> Has(e, "mul") /\ Len(e.mul) = nb /\ IsRedc(Mul(a, b), m, 8 * nb, e.w.km, SV(e.mul)),
       sq  |-> Has(e, "sq")  /\ Len(e.sq) = nb  /\ IsRedc(Mul(a, a), m, 8 * nb, e.w.ks, SV(e.sq)) ]

\* ---- C12 (Lehmer matrices) -----------------------------------------------
(* M = <<m0, m1, m2, m3, s>> with implicit signs                            *)
(*      s = TRUE:  [ m0 -m1; -m2  m3 ]      s = FALSE: [ -m0  m1;  m2 -m3 ] *)
(* M is a valid update for (a, b), a >= b, iff it is the identity or, over  *)
(* the integers, (c, d) = M (a, b) satisfies c >= d >= 0, d < b and M is    *)
(* unimodular (so gcd(c, d) = gcd(a, b)).                                   *)
IsIdentityM(M) == M = <<One, Zero, Zero, One, TRUE>>
Unimodular(M) ==
  LET p == Mul(M[1], M[4])  q == Mul(M[2], M[3])
  IN p = Add(q, One) \/ q = Add(p, One)
\* <<ok, c, d>>: the image of (a, b), ok = FALSE if a component would be negative
ApplyM(M, a, b) ==
  LET p0 == Mul(M[1], a)  p1 == Mul(M[2], b)  p2 == Mul(M[3], a)  p3 == Mul(M[4], b)
  IN IF M[5] THEN (IF Ge(p0, p1) /\ Ge(p3, p2) THEN <<TRUE, Sub(p0, p1), Sub(p3, p2)>> ELSE <<FALSE, Zero, Zero>>)
             ELSE (IF Ge(p1, p0) /\ Ge(p2, p3) THEN <<TRUE, Sub(p1, p0), Sub(p2, p3)>> ELSE <<FALSE, Zero, Zero>>)
IsLehmer(M, a, b) ==
  \/ IsIdentityM(M)
  \/ LET r == ApplyM(M, a, b) IN r[1] /\ Ge(r[2], r[3]) /\ Lt(r[3], b) /\ Unimodular(M)

CheckLehmer(e) ==
  LET a == e.a  b == e.b  n == e.bits
  IN [ m |-> Has(e, "m") /\ IsLehmer(e.m, a, b),
       \* apply() on the Uints gives the integer image (it fits, being <= a)
       applied |-> /\ Has(e, "m")
                   /\ LET r == ApplyM(e.m, a, b) IN r[1] => Eq(e, "applied", <<r[2], r[3]>>) ]

\* full 64-bit Euclid: maps (a, b) to (gcd, 0)
CheckKLehmer64(e) ==
  [ m |-> /\ Has(e, "m") /\ IsLehmer(e.m, e.a, e.b)
          /\ (IsZero(e.b) \/ IsZero(ApplyM(e.m, e.a, e.b)[3])) ]

(* prefix matrices must be valid for EVERY pair of integers that start     *)
(* with the given prefixes: the event carries extensions (k extra bits,    *)
(* low parts x, y) and the matrix is checked on each extended pair.        *)
CheckKLehmerPrefix(e) ==
  [ m |-> /\ Has(e, "m")
          /\ \A i \in 1..Len(e.ext) :
               LET k == e.ext[i][1]
                   A == Add(Shl(e.a, k), e.ext[i][2])
                   B == Add(Shl(e.b, k), e.ext[i][3])
               IN Lt(A, B) \/ IsLehmer(e.m, A, B) ]

CheckKApply128(e) ==
  LET r == ApplyM(e.m, e.a, e.b) IN
  [ out |-> Has(e, "out") /\ (r[1] /\ Lt2(r[2], 128) /\ Lt2(r[3], 128) => e.out = <<r[2], r[3]>>) ]

\* matrix product self * other with the sign rule; entries fit a word by precondition
CheckKCompose(e) ==
  LET p == e.m1  q == e.m2
      r == << Add(Mul(p[1], q[1]), Mul(p[2], q[3])), Add(Mul(p[1], q[2]), Mul(p[2], q[4])),
              Add(Mul(p[3], q[1]), Mul(p[4], q[3])), Add(Mul(p[3], q[2]), Mul(p[4], q[4])),
              p[5] = q[5] >>
  IN [ out |-> Eq(e, "out", r) ]

CheckKern(e) ==
  CASE e.op = "kdiv"          -> CheckKDiv(e)
    [] e.op = "kdiv_nxm"      -> CheckKDivNxM(e)
    [] e.op = "kdiv_nxm_norm" -> CheckKDivNxMNorm(e)
    [] e.op = "kdiv_nx1"      -> CheckKDivSmall(e, 63)
    [] e.op = "kdiv_nx2"      -> CheckKDivSmall(e, 127)
    [] e.op = "kdiv_2x1"      -> CheckKDiv2x1(e)
    [] e.op = "kdiv_3x2"      -> CheckKDiv3x2(e)
    [] e.op = "krecip"        -> CheckKRecip(e)
    [] e.op = "krecip2"       -> CheckKRecip2(e)
    [] e.op = "kaddmul"       -> CheckKAddMul(e)
    [] e.op = "knx1"          -> CheckKNx1(e)
    [] e.op = "kword"         -> CheckKWord(e)
    [] e.op = "kshift"        -> CheckKShift(e)
    [] e.op = "kredc"         -> CheckKRedc(e)
    [] e.op = "lehmer"        -> CheckLehmer(e)
    [] e.op = "klehmer64"     -> CheckKLehmer64(e)
    [] e.op = "klehmer_prefix"    -> CheckKLehmerPrefix(e)
    [] e.op = "klehmer_prefix128" -> CheckKLehmerPrefix(e)
    [] e.op = "kapply128"     -> CheckKApply128(e)
    [] e.op = "kcompose"      -> CheckKCompose(e)
    [] OTHER                  -> [unknown_op |-> FALSE]
=============================================================================
