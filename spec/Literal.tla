------------------------------- MODULE Literal -------------------------------
(***************************************************************************)
(* C19: the uint! literal transformer (ruint-macro) as a function from a   *)
(* literal token (sequence of code points) to what must happen to it:      *)
(*   Expand(kind, bits, value) - becomes a Uint / Bits constant of exactly *)
(*                               that width with that value,               *)
(*   Reject                    - compile-time error,                       *)
(*   PassThrough               - the token is left as it is.               *)
(* The observation comes from compiled probe programs: the same token is   *)
(* compiled inside the macro (m) and outside it (p).                       *)
(***************************************************************************)
EXTENDS Facade

IsDec(c) == c >= 48 /\ c <= 57
\* digit value of a character in bases up to 16, or -1
DigitVal(c) == IF IsDec(c) THEN c - 48
               ELSE IF c >= 97 /\ c <= 102 THEN c - 87
               ELSE IF c >= 65 /\ c <= 70 THEN c - 55 ELSE -1

\* position of the suffix letter: the last 'U' (85) or 'B' (66), followed by a non-empty decimal width
SuffixPos(tok) ==
  LET p == LastIdx(tok, LAMBDA c : c = 85 \/ c = 66)
  IN IF p > 0 /\ p < Len(tok) /\ \A i \in (p + 1)..Len(tok) : IsDec(tok[i]) THEN p ELSE 0

Classify(tok) ==
  LET p == SuffixPos(tok) IN
  IF p = 0 THEN <<"pass">>
  ELSE LET kind == IF tok[p] = 85 THEN "U" ELSE "B"
           wtxt == SubSeq(tok, p + 1, Len(tok))
           val == SubSeq(tok, 1, p - 1)
           pre == IF Len(val) >= 2 /\ val[1] = 48 THEN val[2] ELSE 0
           base == IF pre = 120 THEN 16 ELSE IF pre = 111 THEN 8 ELSE IF pre = 98 THEN 2 ELSE 10
           body == IF base = 10 THEN val ELSE SubSeq(val, 3, Len(val))
           digs == SelectSeq(body, LAMBDA c : c # 95)                    \* underscores are skipped
           bad == \E i \in 1..Len(digs) : DigitVal(digs[i]) < 0 \/ DigitVal(digs[i]) >= base
           \* a hexadecimal literal that merely ends in B<digits> without a separating underscore is not ours
           hexb == kind = "B" /\ base = 16 /\ (Len(val) = 0 \/ val[Len(val)] # 95)
       IN IF hexb THEN <<"pass">>
          ELSE IF Len(wtxt) > 6 THEN <<"reject">>                       \* absurd widths cannot be instantiated
          ELSE IF bad THEN <<"reject">>
          ELSE LET bits == ToNat(DecVal(wtxt))
                   v == FoldL(LAMBDA acc, c : AddSmall(MulSmall(acc, base), DigitVal(c)), Zero, digs)
               IN IF Lt2(v, bits) THEN <<"expand", kind, bits, v>> ELSE <<"reject">>

(* m: observation inside the macro  <<"error">> | <<"U"|"B", bits, limbs, raw limb bytes>> | <<"P", type, text>>  *)
(* p: observation outside the macro <<"error">> | <<"P", type, text>>                                           *)
(* rt: the same digits parsed at run time by from_str_radix: <<"ok", value>> | <<"err">> | <<"none">>           *)
CheckLiteral(e) ==
  LET c == Classify(e.tok) IN
  [ outcome |->
      IF c[1] = "expand"
      THEN /\ e.m[1] = c[2] /\ e.m[2] = c[3] /\ e.m[3] = (c[3] + 63) \div 64
           /\ Len(e.m[4]) = 8 * e.m[3] /\ Norm(e.m[4]) = c[4]
      ELSE IF c[1] = "reject" THEN e.m = <<"error">>
      ELSE e.m = e.p,
    \* an expanded constant equals the run-time parse of the same digits
    runtime |-> (c[1] = "expand" /\ e.m[1] \in {"U", "B"} /\ e.rt # <<"none">>) => (e.rt = <<"ok", Norm(e.m[4])>>) ]

CheckLit(e) ==
  CASE e.op = "literal" -> CheckLiteral(e)
    [] OTHER -> [unknown_op |-> FALSE]
=============================================================================
