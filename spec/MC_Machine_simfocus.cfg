SPECIFICATION Spec
CONSTANTS
  Widths = {7, 63, 65, 100, 127, 129, 250, 255, 257}
  NReg = 4
  Exhaustive = FALSE
  MaxDepth = 25
  Focus = {"ashr", "not", "wneg", "rotl", "rotr", "revbits", "invring", "shl", "oshl", "wmul", "omul", "pow", "wto", "sto", "wsub", "osub", "setbit1", "xor", "load", "npow2", "rt_limbs", "via_u64", "sshl", "wshl", "cshl", "cmul", "cadd", "prod3", "sum3", "redc", "setone", "cpow", "spow", "wpow", "rt_bits", "rt_ssz", "rt_borsh", "rt_scale", "rt_bincode", "msb", "lo", "cz"}
INVARIANTS Canonical TypeOK EmitHistories
CHECK_DEADLOCK FALSE
