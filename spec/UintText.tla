------------------------------- MODULE UintText -------------------------------
(***************************************************************************)
(* Layer 1: base_convert.rs, string.rs, fmt.rs.  Text is a sequence of     *)
(* Unicode code points; a digit of a base < 2^64 is a BigNat.              *)
(***************************************************************************)
EXTENDS Kernels

\* value of little-endian digits ds (BigNats) in base b
HornerLE(ds, b) == FoldR(LAMBDA d, acc : Add(Mul(acc, b), d), ds, Zero)

\* ---- digit iterators -----------------------------------------------------
(* the yielded digits are exactly the base-b digits: each < b, no leading   *)
(* zero digit (zero yields nothing), positional value = a                  *)
IsBaseLE(ds, b, a) ==
  /\ \A i \in 1..Len(ds) : Lt(ds[i], b)
  /\ (Len(ds) > 0 => ~IsZero(ds[Len(ds)]))
  /\ HornerLE(ds, b) = a

\* The digit sequence D seen through the standard Iterator adaptors (their documented meaning: skip(k) drops k items,
\* step_by(2) keeps every other item from the first, nth(k) returns item k and consumes everything up to it -- everything, if
\* there is no item k --, last / count / size_hint agree with the length).  it = the ten recorded sequences.
AdaptorsOK(it, D) ==
  LET n == Len(D)
      TailFrom(i) == IF i > n THEN <<>> ELSE SubSeq(D, i, n)
  IN /\ Len(it) = 10
     /\ it[1] = TailFrom(2) /\ it[2] = <<>> /\ it[3] = <<>>
     /\ it[4] = [i \in 1..((n + 1) \div 2) |-> D[2 * i - 1]]
     /\ it[5] = (IF n >= 2 THEN <<D[2]>> ELSE <<>>) /\ it[6] = TailFrom(3)
     /\ it[7] = <<>> /\ it[8] = <<>>
     /\ it[9] = (IF n >= 1 THEN <<D[n]>> ELSE <<>>)
     /\ it[10] = <<FromNat(n), One, One>>

CheckToBase(e) ==
  LET b == e.base  a == e.a  bad == Lt(b, <<2>>)
  IN [ le |-> IF bad THEN Panics(e, "le") ELSE Has(e, "le") /\ IsBaseLE(e.le, b, a),
       be |-> IF bad THEN Panics(e, "be") ELSE Has(e, "be") /\ IsBaseLE(Rev(e.be), b, a),
       le_it |-> bad \/ (Has(e, "le") /\ Has(e, "le_it") /\ AdaptorsOK(e.le_it, e.le)),
       be_it |-> bad \/ (Has(e, "be") /\ Has(e, "be_it") /\ AdaptorsOK(e.be_it, e.be)) ]

(* from_base: InvalidBase for b < 2; a digit >= b is an error (InvalidDigit, *)
(* or Overflow when the digits consumed before it already overflow: the      *)
(* precedence between two applicable errors is left open); otherwise         *)
(* Ok(value) iff value < 2^n, else Overflow.  ds is in processing order      *)
(* (val gives the value of a processed prefix).                              *)
FromBaseOutcome(res, ds, b, n, PrefixVal(_)) ==
  IF Lt(b, <<2>>) THEN res = <<"badbase", b>>
  ELSE LET k == FirstIdx(ds, LAMBDA d : Ge(d, b))
           valid == IF k = 0 THEN ds ELSE SubSeq(ds, 1, k - 1)
           v == PrefixVal(valid)
           ovf == ~Lt2(v, n)
       IN IF k = 0 THEN res = (IF ovf THEN <<"overflow">> ELSE <<"ok", v>>)
          ELSE \/ res[1] = "baddigit" /\ res[3] = b /\ \E i \in 1..Len(ds) : Ge(ds[i], b) /\ ds[i] = res[2]
               \/ ovf /\ res = <<"overflow">>

CheckFromBase(e) ==
  LET b == e.base  ds == e.ds  n == e.bits
  IN [ le |-> Has(e, "le") /\ FromBaseOutcome(e.le, ds, b, n, LAMBDA p : HornerLE(p, b)),
       be |-> Has(e, "be") /\ FromBaseOutcome(e.be, ds, b, n, LAMBDA p : HornerLE(Rev(p), b)) ]

\* ---- formatting ----------------------------------------------------------
\* little-endian digits (native numbers) of a in a small radix r, via chunks of r^k < 2^22
RECURSIVE ChunksLE(_, _)
ChunksLE(a, c) == IF IsZero(a) THEN <<>> ELSE LET qr == DivModSmall(a, c) IN <<qr[2]>> \o ChunksLE(qr[1], c)
ChunkLen(r) == CASE r = 2 -> 21 [] r = 8 -> 7 [] r = 10 -> 6 [] r = 16 -> 5
SmallDigitsLE(a, r) ==
  LET k == ChunkLen(r)
      cs == ChunksLE(a, r ^ k)
      all == [i \in 1..(k * Len(cs)) |-> (cs[(i - 1) \div k + 1] \div (r ^ ((i - 1) % k))) % r]
  IN SubSeq(all, 1, LastIdx(all, LAMBDA d : d # 0))
DigitChar(d, upper) == IF d < 10 THEN 48 + d ELSE IF upper THEN 55 + d ELSE 87 + d
\* the digits of a as text, most significant first ("0" for zero)
DigitText(a, r, upper) ==
  IF IsZero(a) THEN <<48>>
  ELSE LET ds == SmallDigitsLE(a, r) IN [i \in 1..Len(ds) |-> DigitChar(ds[Len(ds) + 1 - i], upper)]

Radix(tr)  == CASE tr = "d" -> 10 [] tr = "?" -> 10 [] tr = "b" -> 2 [] tr = "o" -> 8 [] tr = "x" -> 16 [] tr = "X" -> 16
Prefix(tr) == CASE tr = "d" -> <<>> [] tr = "?" -> <<>> [] tr = "b" -> <<48, 98>> [] tr = "o" -> <<48, 111>>
                [] tr = "x" -> <<48, 120>> [] tr = "X" -> <<48, 120>>

(* core::fmt::Formatter::pad_integral for a non-negative number:            *)
(* sign (+ flag), prefix (# flag), then either the zero flag (zeros between *)
(* prefix and digits, fill and alignment ignored) or fill to the minimum    *)
(* width with the requested alignment (numbers default to right-aligned).   *)
Repeat(c, k) == [i \in 1..k |-> c]
PadIntegral(prefix, digs, plus, alt, zero, width, fill, align) ==
  LET sign == IF plus THEN <<43>> ELSE <<>>
      pre == IF alt THEN prefix ELSE <<>>
      body == sign \o pre \o digs
      n == Len(body)
  IN IF width <= n THEN body
     ELSE IF zero THEN sign \o pre \o Repeat(48, width - n) \o digs
     ELSE LET pad == width - n
              left == CASE align = "<" -> 0 [] align = ">" -> pad [] align = "^" -> pad \div 2
          IN Repeat(fill, left) \o body \o Repeat(fill, pad - left)

\* the event carries the format spec both as the literal pieces the executor selects its format string with
\* (fl, al) and decoded for the specification: plus, alt, zero, dir in {"<", "^", ">"}, fill code point
CheckFmt(e) ==
  LET w == IF Has(e, "w") THEN e.w ELSE 0
      t == PadIntegral(Prefix(e.tr), DigitText(e.a, Radix(e.tr), e.tr = "X"),
                       e.plus, e.alt, e.zero, w, e.fill, e.dir)
  IN [ text |-> Eq(e, "text", t),
       \* the primitive's own formatting of the same number must be the same text
       prim |-> IF Lt2(e.a, 128) THEN Eq(e, "prim", t) ELSE ~Has(e, "prim") ]

\* ---- parsing ---------------------------------------------------------------
\* -1 = ignored character, -2 = not in the alphabet, otherwise the digit value
Alpha36(c) == IF c >= 48 /\ c <= 57 THEN c - 48
              ELSE IF c >= 97 /\ c <= 122 THEN c - 87
              ELSE IF c >= 65 /\ c <= 90 THEN c - 55
              ELSE IF c = 95 THEN -1 ELSE -2
Alpha64(c) == IF c >= 65 /\ c <= 90 THEN c - 65
              ELSE IF c >= 97 /\ c <= 122 THEN c - 71
              ELSE IF c >= 48 /\ c <= 57 THEN c + 4
              ELSE IF c = 43 \/ c = 45 THEN 62
              ELSE IF c = 47 \/ c = 44 \/ c = 95 THEN 63
              ELSE IF c = 61 \/ c = 13 \/ c = 10 THEN -1 ELSE -2

(* from_str_radix(s, r), r a native number: the set of allowed outcomes.     *)
(* With no problem in the string the outcome is Ok(value) (value < 2^n) -    *)
(* for a string without any digit the result is left open.  Each problem     *)
(* (character outside the alphabet, digit >= radix, value of the digits      *)
(* before the first problem >= 2^n) allows the corresponding error;          *)
(* precedence between applicable errors is left open.                        *)
ParseOutcome(res, s, r, n) ==
  LET cls == [i \in 1..Len(s) |-> IF r <= 36 THEN Alpha36(s[i]) ELSE Alpha64(s[i])]
      k == FirstIdx(cls, LAMBDA x : x = -2 \/ x >= r)
      upto == IF k = 0 THEN Len(s) ELSE k - 1
      digs == SelectSeq(SubSeq(cls, 1, upto), LAMBDA x : x >= 0)
      v == FoldL(LAMBDA acc, d : AddSmall(MulSmall(acc, r), d), Zero, digs)
      ovf == ~Lt2(v, n)
      badchar == \E i \in 1..Len(s) : cls[i] = -2 /\ res = <<"char", s[i]>>
      baddig == \E i \in 1..Len(s) : cls[i] >= r /\ res = <<"baddigit", FromNat(cls[i]), FromNat(r)>>
  IN IF k = 0 /\ ~ovf THEN (Len(digs) = 0 \/ res = <<"ok", v>>)
     ELSE badchar \/ baddig \/ (ovf /\ res = <<"overflow">>)

FromStrRadixOutcome(res, s, radix, n) ==
  IF ~Lt2(radix, 7) \/ ToNat(radix) > 64 THEN res = <<"radix", radix>>
  ELSE IF ToNat(radix) < 2 THEN res = <<"badbase", radix>>
  ELSE ParseOutcome(res, s, ToNat(radix), n)

\* FromStr sniffs the prefixes 0x 0o 0b (either case), otherwise decimal
FromStrOutcome(res, s, n) ==
  LET p == IF Len(s) >= 2 /\ s[1] = 48 THEN s[2] ELSE 0
      r == IF p = 120 \/ p = 88 THEN 16 ELSE IF p = 111 \/ p = 79 THEN 8 ELSE IF p = 98 \/ p = 66 THEN 2 ELSE 10
      rest == IF r = 10 THEN s ELSE SubSeq(s, 3, Len(s))
  IN ParseOutcome(res, rest, r, n)

CheckParse(e) ==
  [ fsr |-> Has(e, "fsr") /\ FromStrRadixOutcome(e.fsr, e.s, e.radix, e.bits),
    fs  |-> Has(e, "fs") /\ FromStrOutcome(e.fs, e.s, e.bits) ]

CheckText(e) ==
  CASE e.op = "tobase"   -> CheckToBase(e)
    [] e.op = "frombase" -> CheckFromBase(e)
    [] e.op = "fmt"      -> CheckFmt(e)
    [] e.op = "parse"    -> CheckParse(e)
    [] OTHER             -> [unknown_op |-> FALSE]
=============================================================================
