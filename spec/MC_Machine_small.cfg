SPECIFICATION Spec
CONSTANTS
  Widths = {0, 1, 2, 3}
  NReg = 2
  Exhaustive = TRUE
  MaxDepth = 1
  Focus = {}
INVARIANTS Canonical NativeOK TypeOK EmitTransitions
CHECK_DEADLOCK FALSE
