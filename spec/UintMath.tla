------------------------------- MODULE UintMath -------------------------------
(***************************************************************************)
(* Layer 1: modular.rs, gcd.rs, pow.rs, log.rs, root.rs.                   *)
(*                                                                         *)
(* Quotients, gcds and inverses are specified in WITNESS FORM: the         *)
(* contract is a relation that needs only +, * and comparison, and the     *)
(* existential variables (quotient k, cofactors, ...) are supplied in the  *)
(* event's field  w  by the scenario generator from an independent         *)
(* computation.  A wrong witness can only make the specification reject:   *)
(*   - a = k*m + r /\ r < m determines r uniquely (Euclid);                *)
(*   - g*a1 = a /\ g*b1 = b /\ |u*a1 - v*b1| = 1 implies g = gcd(a, b).    *)
(***************************************************************************)
EXTENDS UintBytes

\* r = x mod m, witnessed by the quotient k:  x = k*m + r, r < m
IsResidue(x, m, k, r) == Lt(r, m) /\ Add(Mul(k, m), r) = x

\* bits of a BigNat exponent, most significant first
BitsTopDown(e) == [i \in 1..BitLen(e) |-> BitAt(e, BitLen(e) - i)]

\* ---- C10 ---------------------------------------------------------------
CheckModular(e) ==
  LET a == e.a  b == e.b  m == e.m  n == e.bits  z == IsZero(m)
      Res(f, x, k) == Has(e, f) /\ (IF z THEN e[f] = Zero ELSE IsResidue(x, m, k, e[f]))
  IN [ reduce |-> Res("reduce", a, e.w.kr),
       add    |-> Res("add", Add(a, b), e.w.ka),
       mul    |-> Res("mul", Mul(a, b), e.w.km) ]

(* a^e mod m by left-to-right square and multiply; every reduction step is *)
(* in witness form: ks is the sequence of quotients in the order used.     *)
(* Returns <<ok, value>>; ok = FALSE if some witness does not fit.         *)
PowModW(a, ebits, m, ks) ==
  LET Red(st, x) ==     \* st = <<ok, acc, next index into ks>>; reduce x mod m with ks[st[3]]
        IF ~st[1] \/ st[3] > Len(ks) THEN <<FALSE, Zero, st[3]>>
        ELSE LET km == Mul(ks[st[3]], m)
             IN IF Lt(x, km) THEN <<FALSE, Zero, st[3]>>
                ELSE LET r == Sub(x, km) IN <<Lt(r, m), r, st[3] + 1>>
      Step(st, bit) ==
        LET s1 == Red(st, Mul(st[2], st[2]))
        IN IF bit = 1 THEN Red(s1, Mul(s1[2], a)) ELSE s1
      init == Red(<<TRUE, Zero, 1>>, One)       \* 1 mod m
  IN FoldL(Step, init, ebits)

CheckPowMod(e) ==
  LET a == e.a  m == e.m  n == e.bits
  IN [ pow |-> IF n = 0 \/ Le(m, One) THEN Eq(e, "pow", Zero)
               ELSE LET r == PowModW(a, BitsTopDown(e.e), m, e.w.ks)
                    IN r[1] /\ Eq(e, "pow", r[2]) ]

(* inv_mod: Some(x) iff m >= 2 and gcd(a, m) = 1, with x < m, a*x = 1 + k*m. *)
(* Witness for Some: k (x is unique in [0, m)).  Witness for None when      *)
(* m >= 2: a common divisor c > 1 with c*a1 = a, c*m1 = m.                  *)
CheckInvMod(e) ==
  LET a == e.a  m == e.m
  IN [ inv |-> /\ Has(e, "inv")
               /\ IF Len(e.inv) = 1
                  THEN LET x == e.inv[1] IN
                       /\ Ge(m, <<2>>) /\ Lt(x, m)
                       /\ "k" \in DOMAIN e.w /\ Mul(a, x) = Add(Mul(e.w.k, m), One)
                  ELSE \/ Lt(m, <<2>>)
                       \/ /\ "c" \in DOMAIN e.w /\ Gt(e.w.c, One)
                          /\ Mul(e.w.c, e.w.a1) = a /\ Mul(e.w.c, e.w.m1) = m,
       \* the free function ruint::algorithms::inv_mod: same arguments, same answer (the inverse below m is unique)
       alg_inv |-> Has(e, "inv") /\ Eq(e, "alg_inv", e.inv) ]

\* ---- C11 (Uint methods) --------------------------------------------------
(* r = x * R^-1 mod m, R = 2^(64N):  r < m and r*R = x + k*m for the signed *)
(* witness k = <<negative?, magnitude>>.                                    *)
IsRedc(x, m, rbits, k, r) ==
  /\ Lt(r, m)
  /\ IF k[1] THEN Add(Shl(r, rbits), Mul(k[2], m)) = x
             ELSE Shl(r, rbits) = Add(x, Mul(k[2], m))

RedcPre(a, b, m, inv) ==
  /\ BitAt(m, 0) = 1 /\ Ge(m, <<3>>) /\ Lt(a, m) /\ Lt(b, m)
  /\ IsZero(Mod2(AddSmall(Mul(inv, Mod2(m, 64)), 1), 64))       \* inv = -m^-1 mod 2^64

CheckRedc(e) ==
  LET a == e.a  b == e.b  m == e.m  rb == 64 * ((e.bits + 63) \div 64)
  IN [ pre |-> RedcPre(a, b, m, e.inv),
       mul |-> Has(e, "mul") /\ IsRedc(Mul(a, b), m, rb, e.w.km, e.mul) /\ Lt2(e.mul, e.bits),
       sq  |-> Has(e, "sq")  /\ IsRedc(Mul(a, a), m, rb, e.w.ks, e.sq) /\ Lt2(e.sq, e.bits) ]

\* ---- C12 ---------------------------------------------------------------
(* g = gcd(a, b): g = 0 iff a = b = 0; else witnesses a1 = a/g, b1 = b/g   *)
(* and Bezout cofactors u, v with u*a1 - v*b1 = +1 (w.pos) or -1.          *)
IsGcd(a, b, g, w) ==
  IF IsZero(a) /\ IsZero(b) THEN IsZero(g)
  ELSE /\ Mul(g, w.a1) = a /\ Mul(g, w.b1) = b
       /\ IF w.pos THEN Mul(w.u, w.a1) = Add(Mul(w.v, w.b1), One)
                   ELSE Mul(w.v, w.b1) = Add(Mul(w.u, w.a1), One)

CheckGcd(e) ==
  LET a == e.a  b == e.b  n == e.bits  w == e.w
      gok == Has(e, "gcd") /\ Lt2(e.gcd, n) /\ IsGcd(a, b, e.gcd, w)
      \* lcm = a1 * b  (a1 = a / gcd); 0 if either is 0
      l == IF IsZero(a) \/ IsZero(b) THEN Zero ELSE Mul(w.a1, b)
      xg == e.ext
      ax == Mod2(Mul(a, xg[2]), n)   by == Mod2(Mul(b, xg[3]), n)
  IN [ gcd |-> gok,
       lcm |-> gok /\ Eq(e, "lcm", IF Lt2(l, n) THEN Some(l) ELSE None),
       ext |-> /\ gok /\ Has(e, "ext") /\ xg[1] = e.gcd
               /\ Lt2(xg[2], n) /\ Lt2(xg[3], n)
               /\ IF xg[4] THEN WrapSub(ax, by, n) = xg[1] ELSE WrapSub(by, ax, n) = xg[1],
       \* the free functions ruint::algorithms::{gcd, gcd_extended}: the gcd is unique; the extended form must satisfy the same
       \* identity (its cofactors are not unique, so it is checked on its own, not against the method)
       alg_gcd |-> Has(e, "gcd") /\ Eq(e, "alg_gcd", e.gcd),
       alg_ext |-> /\ Has(e, "alg_ext") /\ Has(e, "gcd") /\ e.alg_ext[1] = e.gcd
                   /\ Lt2(e.alg_ext[2], n) /\ Lt2(e.alg_ext[3], n)
                   /\ LET ax2 == Mod2(Mul(a, e.alg_ext[2]), n)  by2 == Mod2(Mul(b, e.alg_ext[3]), n)
                      IN IF e.alg_ext[4] THEN WrapSub(ax2, by2, n) = e.alg_ext[1] ELSE WrapSub(by2, ax2, n) = e.alg_ext[1] ]

\* ---- C13 ---------------------------------------------------------------
\* a^e mod 2^n, e a BigNat (right-to-left bits are not needed: left-to-right, truncating)
PowWrap(a, e, n) ==
  FoldL(LAMBDA acc, bit : LET s == Mod2(Mul(acc, acc), n)
                          IN IF bit = 1 THEN Mod2(Mul(s, a), n) ELSE s,
        Mod2(One, n), BitsTopDown(e))

(* x^d > v ?  Left-to-right square and multiply, saturating as soon as the *)
(* accumulator exceeds v: every intermediate of the left-to-right scheme   *)
(* is <= the final power (x >= 1), so saturation is exact; for x = 0 the   *)
(* power is 0 (d >= 1) or 1 (d = 0).                                       *)
PowGt(x, d, v) ==
  IF IsZero(x) THEN (IF IsZero(d) THEN Lt(v, One) ELSE FALSE)
  ELSE LET st == FoldL(LAMBDA acc, bit :
                         IF acc[1] THEN acc
                         ELSE LET s == Mul(acc[2], acc[2])
                              IN IF Gt(s, v) THEN <<TRUE, Zero>>
                                 ELSE IF bit = 1
                                      THEN LET t == Mul(s, x) IN IF Gt(t, v) THEN <<TRUE, Zero>> ELSE <<FALSE, t>>
                                      ELSE <<FALSE, s>>,
                       <<Gt(One, v), One>>, BitsTopDown(d))
       IN st[1]

\* a^e >= 2^n
PowOverflows(a, e, n) == n > 0 /\ PowGt(a, e, Ones(n))

CheckPow(e) ==
  LET a == e.a  x == e.e  n == e.bits
      v == IF n = 0 THEN Zero ELSE PowWrap(a, x, n)
      o == PowOverflows(a, x, n)
  IN [ opow |-> Eq(e, "opow", <<v, o>>),
       cpow |-> Eq(e, "cpow", Opt(o, v)),
       spow |-> Eq(e, "spow", IF o THEN MaxU(n) ELSE v),
       wpow |-> Eq(e, "wpow", v), pow |-> Eq(e, "pow", v) ]

\* k = floor(log_b v):  b^k <= v < b^(k+1)     (v > 0, b >= 2; k a native number)
IsLog(v, b, k) == ~PowGt(b, FromNat(k), v) /\ PowGt(b, FromNat(k + 1), v)

CheckLog(e) ==
  LET v == e.a  b == e.b
      undefined == IsZero(v) \/ Lt(b, <<2>>)
  IN [ log  |-> IF undefined THEN Panics(e, "log") ELSE Has(e, "log") /\ IsLog(v, b, e.log),
       clog |-> /\ Has(e, "clog")
                /\ IF undefined THEN e.clog = None ELSE Len(e.clog) = 1 /\ IsLog(v, b, e.clog[1]) ]

\* base 10 by repeated multiplication with a small constant: O(k * length) instead of O(log k) full multiplications, so that
\* EVERY power of ten of a 4096-bit type can be visited (guard k: a wild result must not make TLC build a huge number)
Pow10(k) == FoldL(LAMBDA acc, i : MulSmall(acc, 10), One, [i \in 1..k |-> i])
IsLog10(v, k) == k <= BitLen(v) /\ LET p == Pow10(k) IN Le(p, v) /\ Gt(MulSmall(p, 10), v)

\* log2 / log10 have implicit bases: defined for every non-zero value at every width
CheckLog210(e) ==
  LET v == e.a  z == IsZero(v)
  IN [ log2   |-> IF z THEN Panics(e, "log2") ELSE Eq(e, "log2", BitLen(v) - 1),
       log10  |-> IF z THEN Panics(e, "log10") ELSE Has(e, "log10") /\ IsLog10(v, e.log10),
       clog2  |-> Eq(e, "clog2", IF z THEN None ELSE Some(BitLen(v) - 1)),
       clog10 |-> /\ Has(e, "clog10")
                  /\ IF z THEN e.clog10 = None ELSE Len(e.clog10) = 1 /\ IsLog10(v, e.clog10[1]) ]

\* r = floor(v^(1/d)):  r^d <= v < (r+1)^d    (d >= 1)
IsRoot(v, d, r) == ~PowGt(r, d, v) /\ PowGt(AddSmall(r, 1), d, v)

CheckRoot(e) ==
  [ root |-> IF IsZero(e.d) THEN Panics(e, "root")
             ELSE Has(e, "root") /\ Lt2(e.root, e.bits) /\ IsRoot(e.a, e.d, e.root) ]

CheckMath(e) ==
  CASE e.op = "modular" -> CheckModular(e)
    [] e.op = "powmod"  -> CheckPowMod(e)
    [] e.op = "invmod"  -> CheckInvMod(e)
    [] e.op = "redc"    -> CheckRedc(e)
    [] e.op = "gcd"     -> CheckGcd(e)
    [] e.op = "pow"     -> CheckPow(e)
    [] e.op = "log"     -> CheckLog(e)
    [] e.op = "log210"  -> CheckLog210(e)
    [] e.op = "root"    -> CheckRoot(e)
    [] OTHER            -> [unknown_op |-> FALSE]
=============================================================================
