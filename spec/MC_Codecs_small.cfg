SPECIFICATION Spec
CONSTANTS
  Widths = {0, 1, 2, 7, 8, 9, 12}
  Extra = {16383, 16384, 65535, 65536, 1073741823, 1073741824, 1073741825, 2147483646, 16777216, 4294967, 9999, 10000, 10001, 20000, 99999999, 100000000, 100010000, 120000}
  XWidths = {2, 8, 9, 16}
  Alphabet = {0, 1, 2, 3, 127, 128, 129, 255}
  MaxLen = 4
INVARIANTS RlpRoundTrip DerRoundTrip ScaleRoundTrip PgRoundTrip PgNumericShape PgRange TextRoundTrip Injective RlpAgree DerAgree CompactAgree PgAgree
CHECK_DEADLOCK FALSE
