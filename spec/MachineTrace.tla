---------------------------- MODULE MachineTrace ----------------------------
(***************************************************************************)
(* Trace validation of the register machine (implementation ->             *)
(* specification).  The histories are NOT TLC's: the executor's own driver *)
(* (ux_mach, kind "d") draws operations, registers and immediates with its *)
(* own generator -- any shift amount, any bit index, not only the ones     *)
(* UintMachine!Imms enumerates -- runs them on the real register file and  *)
(* logs, after every public call's return, the operation, its arguments,   *)
(* the flag and the WHOLE register file as raw limbs.  One line of the     *)
(* trace file is one history.  Each logged step must be the step           *)
(* UintMachine!Do takes from the current state: same value written, same   *)
(* flag, nothing else changed, every register canonical.  Validation is    *)
(* mismatch-tolerant: a deviating step is reported (MISMATCH l i op) and   *)
(* the specification then FOLLOWS the implementation's state, so that the  *)
(* rest of the history is still checked.                                   *)
(***************************************************************************)
EXTENDS UintMachine, IOUtils

Hists == ndJsonDeserialize(IOEnv.TRACE)

VARIABLES l, i        \* history, step (step 1 is the initial register file)
tvars == <<bits, reg, obs, hist, l, i>>

CanonFile(rs, n) == \A r \in DOMAIN rs : IsNat(rs[r]) /\ Lt2(rs[r], n)

TInit ==
  /\ l = 1 /\ i = 2
  /\ bits = Hists[1].bits
  /\ reg = Hists[1].steps[1].regs
  /\ obs = [op |-> "init"]
  /\ hist = <<>>

\* the logged step st is the specification's step from the current state
StepOK(st) ==
  /\ ~st.pan
  /\ st.op \in Ops
  /\ (st.op \in DivOps => ~IsZero(reg[st.s2]))
  /\ CanonFile(st.regs, bits)
  /\ LET r == Apply(st.op, reg[st.s1], reg[st.s2], reg[st.d], st.k, bits)
     IN st.regs = [reg EXCEPT ![st.d] = r[1]] /\ st.f = r[2]

Step ==
  /\ l <= Len(Hists) /\ i <= Len(Hists[l].steps)
  /\ LET st == Hists[l].steps[i] IN
       \* (the test sits in an IF so that TLC evaluates it as a state predicate, with short-circuit disjunctions)
       /\ IF CanonFile(reg, bits) /\ ~StepOK(st) THEN PrintT(<<"MISMATCH", l, i, st.op>>) ELSE TRUE
       /\ reg' = st.regs                       \* follow the implementation
       /\ obs' = [op |-> st.op]
  /\ i' = i + 1
  /\ UNCHANGED <<bits, hist, l>>

NextHistory ==
  /\ l < Len(Hists) /\ i > Len(Hists[l].steps)
  /\ l' = l + 1 /\ i' = 2
  /\ bits' = Hists[l + 1].bits
  /\ reg' = Hists[l + 1].steps[1].regs
  /\ obs' = [op |-> "init"]
  /\ UNCHANGED hist

Finished == l = Len(Hists) /\ i > Len(Hists[l].steps)

TNext == Step \/ NextHistory
TSpec == TInit /\ [][TNext]_tvars

\* every line consumed: one state per step plus one per history boundary
Expected == LET RECURSIVE Sum(_) Sum(k) == IF k = 0 THEN 0 ELSE (Len(Hists[k].steps) - 1) + Sum(k - 1)
            IN Sum(Len(Hists)) + Len(Hists)
TraceAccepted ==
  \/ TLCGet("stats").diameter = Expected
  \/ PrintT(<<"TRACE-NOT-CONSUMED", TLCGet("stats").diameter, Expected>>)
=============================================================================
