------------------------------ MODULE Witness ------------------------------
(***************************************************************************)
(* The witness-form contracts of Layer 1 replace a computation TLC would   *)
(* have to do on 4096-bit numbers (division, Euclid's algorithm) by a      *)
(* relation that needs only + * and comparisons, with the existential      *)
(* variables supplied (untrusted) in the event.  These lemmas are the      *)
(* soundness of that replacement, checked by TLAPS (tlapm, SMT back end):  *)
(* whoever supplies the witness, a relation that holds pins the result.    *)
(***************************************************************************)
EXTENDS Integers, TLAPS

\* Euclidean contract (C03, reduce/add/mul_mod of C10, every step of pow_mod): q, r with n = q d + r, r < d are THE quotient
\* and remainder
LEMMA MulGe ==
  ASSUME NEW z \in Nat, NEW d \in Nat, z >= 1
  PROVE  z * d >= d
  <1>1. z * d = d + (z - 1) * d OBVIOUS
  <1>2. (z - 1) \in Nat OBVIOUS
  <1>3. (z - 1) * d >= 0 BY <1>2
  <1> QED BY <1>1, <1>3

THEOREM EuclidUnique ==
  ASSUME NEW n \in Nat, NEW d \in Nat, NEW q \in Nat, NEW r \in Nat,
         d > 0, n = q * d + r, r < d
  PROVE  q = n \div d /\ r = n % d
  <1> DEFINE q2 == n \div d
  <1> DEFINE r2 == n % d
  <1>1. n = d * q2 + r2 /\ r2 >= 0 /\ r2 < d /\ q2 \in Nat /\ r2 \in Nat OBVIOUS
  <1>2. q2 = q
    <2>1. CASE q > q2
      <3>1. (q - q2) \in Nat /\ (q - q2) >= 1 BY <2>1, <1>1
      <3>2. (q - q2) * d >= d BY <3>1, MulGe
      <3>3. q * d = q2 * d + (q - q2) * d BY <1>1
      <3>4. q * d + r >= q2 * d + d BY <3>2, <3>3
      <3> QED BY <3>4, <1>1
    <2>2. CASE q2 > q
      <3>1. (q2 - q) \in Nat /\ (q2 - q) >= 1 BY <2>2, <1>1
      <3>2. (q2 - q) * d >= d BY <3>1, MulGe
      <3>3. q2 * d = q * d + (q2 - q) * d BY <1>1
      <3>4. d * q2 + r2 >= q * d + d BY <3>2, <3>3, <1>1
      <3> QED BY <3>4, <1>1
    <2> QED BY <2>1, <2>2, <1>1
  <1>3. r2 = r
    <2>1. d * q2 = q * d BY <1>2
    <2>2. q * d + r2 = q * d + r BY <1>1, <2>1
    <2> QED BY <2>2
  <1> QED BY <1>2, <1>3

\* two pairs satisfying the contract coincide (used for: "the 19 other forms must return that pair")
THEOREM EuclidPairsEqual ==
  ASSUME NEW n \in Nat, NEW d \in Nat, NEW q1 \in Nat, NEW r1 \in Nat, NEW q2 \in Nat, NEW r2 \in Nat,
         d > 0, n = q1 * d + r1, r1 < d, n = q2 * d + r2, r2 < d
  PROVE  q1 = q2 /\ r1 = r2
  <1>1. q1 = n \div d /\ r1 = n % d BY EuclidUnique
  <1>2. q2 = n \div d /\ r2 = n % d BY EuclidUnique
  <1> QED BY <1>1, <1>2

\* inverse witness (C10 inv_mod): a x = 1 + k m with x < m, m >= 2 says x is the inverse
THEOREM InverseWitness ==
  ASSUME NEW a \in Nat, NEW x \in Nat, NEW k \in Nat, NEW m \in Nat,
         m >= 2, a * x = 1 + k * m
  PROVE  (a * x) % m = 1
  <1> DEFINE n == a * x
  <1>1. n \in Nat OBVIOUS
  <1>2. m > 0 /\ 1 < m OBVIOUS
  <1>3. n = k * m + 1 OBVIOUS
  <1>4. 1 \in Nat OBVIOUS
  <1> HIDE DEF n
  <1>5. k = n \div m /\ 1 = n % m BY <1>1, <1>2, <1>3, <1>4, EuclidUnique
  <1> QED BY <1>5 DEF n

\* floor-logarithm / floor-root contracts are stated directly (b^k <= v < b^(k+1)); no witness is involved.

\* gcd witness (C12): g a1 = a, g b1 = b and a Bezout pair u a1 - v b1 = 1 (or the mirror image) make g a common divisor
\* that every common divisor c divides -- i.e. the greatest one
THEOREM GcdWitness ==
  ASSUME NEW a \in Nat, NEW b \in Nat, NEW g \in Nat, NEW a1 \in Nat, NEW b1 \in Nat, NEW u \in Nat, NEW v \in Nat,
         NEW c \in Nat, NEW a2 \in Nat, NEW b2 \in Nat,
         g * a1 = a, g * b1 = b, u * a1 - v * b1 = 1,
         c * a2 = a, c * b2 = b
  PROVE  \E t \in Int : g = c * t
  <1>1. g = g * (u * a1 - v * b1) OBVIOUS
  <1>2. g * (u * a1 - v * b1) = u * (g * a1) - v * (g * b1) OBVIOUS
  <1>3. g = u * a - v * b BY <1>1, <1>2
  <1>4. u * a - v * b = u * (c * a2) - v * (c * b2) OBVIOUS
  <1>5. u * (c * a2) - v * (c * b2) = c * (u * a2 - v * b2) OBVIOUS
  <1>6. g = c * (u * a2 - v * b2) BY <1>3, <1>4, <1>5
  <1>7. (u * a2 - v * b2) \in Int OBVIOUS
  <1> QED BY <1>6, <1>7

\* Montgomery witness (C11): r 2^(64N) = a b + k m with r < m determines r modulo m given that 2^(64N) is invertible; the
\* contract additionally requires r < m, so r is the canonical residue.  (R = 2^(64N), Rinv its inverse modulo m.)
THEOREM RedcWitness ==
  ASSUME NEW r \in Nat, NEW a \in Nat, NEW b \in Nat, NEW k \in Int, NEW m \in Nat, NEW R \in Nat, NEW Rinv \in Nat, NEW j \in Nat,
         m > 0, r * R = a * b + k * m, R * Rinv = 1 + j * m
  PROVE  \E t \in Int : r = a * b * Rinv + t * m
  <1>1. r * (R * Rinv) = (a * b + k * m) * Rinv OBVIOUS
  <1>2. r * (1 + j * m) = a * b * Rinv + k * m * Rinv BY <1>1
  <1>3. r = a * b * Rinv + (k * Rinv - r * j) * m BY <1>2
  <1>4. (k * Rinv - r * j) \in Int OBVIOUS
  <1> QED BY <1>3, <1>4
=============================================================================
