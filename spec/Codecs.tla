------------------------------- MODULE Codecs -------------------------------
(***************************************************************************)
(* Layer 1 for the codec integrations (support/*.rs).  Each encoder is a   *)
(* function value |-> byte string written from the FORMAT's definition     *)
(* (RLP, SCALE, SSZ, borsh, DER, JSON quantity, bincode, postgres wire     *)
(* formats), not from ruint's code.  Each decoder has a predicate          *)
(* "the input denotes v under the format"; totality (no panic) is part of  *)
(* every decoder's contract.                                               *)
(***************************************************************************)
EXTENDS UintFloat

BEVal(s) == Norm(Rev(s))             \* value of a big-endian byte string
LEVal(s) == Norm(s)
BEMin(v) == Rev(v)                   \* minimal big-endian bytes of v (empty for 0)
\* native number -> k bytes big endian / little endian
NatLE(x, k) == ToBytes(FromNat(x), k)
NatBE(x, k) == Rev(NatLE(x, k))
\* value of a short byte string as a native number, or -1 if it does not fit 2^30
SmallBE(s) == LET v == BEVal(s) IN IF Lt2(v, 30) THEN ToNat(v) ELSE -1
IsPrefixOf(p, s) == Len(p) <= Len(s) /\ SubSeq(s, 1, Len(p)) = p
Ok1(v) == <<"ok", v>>
Ok2(v, c) == <<"ok", v, c>>
Err == <<"err">>

\* ---- RLP -----------------------------------------------------------------
\* RLP string of an arbitrary payload
RlpStr(p) ==
  IF Len(p) = 1 /\ p[1] < 128 THEN p
  ELSE IF Len(p) <= 55 THEN <<128 + Len(p)>> \o p
  ELSE LET lb == BEMin(FromNat(Len(p))) IN <<183 + Len(lb)>> \o lb \o p
\* RLP of an integer: the minimal big-endian string
RlpEnc(v) == RlpStr(BEMin(v))

(* header of the item at the start of x: <<ok, isList, payloadStart, payloadLen>> *)
RlpHeader(x) ==
  IF Len(x) = 0 THEN <<FALSE, FALSE, 0, 0>>
  ELSE LET b == x[1] IN
       IF b < 128 THEN <<TRUE, FALSE, 1, 1>>
       ELSE IF b <= 183 THEN <<Len(x) >= 1 + (b - 128), FALSE, 2, b - 128>>
       ELSE IF b <= 191 THEN
            LET ll == b - 183
                l == IF Len(x) >= 1 + ll THEN SmallBE(SubSeq(x, 2, 1 + ll)) ELSE -1
            IN <<l >= 0 /\ Len(x) >= 1 + ll + l, FALSE, 2 + ll, l>>
       ELSE <<FALSE, TRUE, 0, 0>>
RlpPayload(x) == LET h == RlpHeader(x) IN SubSeq(x, h[3], h[3] + h[4] - 1)
RlpConsumed(x) == LET h == RlpHeader(x) IN h[3] + h[4] - 1

\* canonical decoders (alloy-rlp, fastrlp): accept exactly the canonical encoding of an in-range value
RlpCanonical(x, n) ==
  LET h == RlpHeader(x) IN
  IF ~h[1] THEN Err
  ELSE LET v == BEVal(RlpPayload(x))  c == RlpConsumed(x)
       IN IF Lt2(v, n) /\ RlpEnc(v) = SubSeq(x, 1, c) THEN Ok2(v, c) ELSE Err
\* lenient decoder (rlp crate): an accepted input is a string whose payload is the value
RlpDenotes(x, v, n) == LET h == RlpHeader(x) IN h[1] /\ v = BEVal(RlpPayload(x)) /\ Lt2(v, n)

\* ---- SCALE ---------------------------------------------------------------
ScaleCompactEnc(v) ==
  IF Lt2(v, 6) THEN <<ToNat(v) * 4>>
  ELSE IF Lt2(v, 14) THEN NatLE(ToNat(v) * 4 + 1, 2)
  ELSE IF Lt2(v, 30) THEN ToBytes(AddSmall(MulSmall(v, 4), 2), 4)
  ELSE <<3 + (Len(v) - 4) * 4>> \o v
ScaleFixedEnc(v, n) == ScaleCompactEnc(FromNat(NBytes(n))) \o ToLe(v, n)
\* compact integer at the start of x: <<ok, value, consumed>>
ScaleCompactParse(x) ==
  IF Len(x) = 0 THEN <<FALSE, Zero, 0>>
  ELSE LET m == x[1] % 4 IN
       IF m = 0 THEN <<TRUE, FromNat(x[1] \div 4), 1>>
       ELSE IF m = 1 THEN <<Len(x) >= 2, IF Len(x) >= 2 THEN Div2(LEVal(SubSeq(x, 1, 2)), 2) ELSE Zero, 2>>
       ELSE IF m = 2 THEN <<Len(x) >= 4, IF Len(x) >= 4 THEN Div2(LEVal(SubSeq(x, 1, 4)), 2) ELSE Zero, 4>>
       ELSE LET k == x[1] \div 4 + 4
            IN <<Len(x) >= 1 + k, IF Len(x) >= 1 + k THEN LEVal(SubSeq(x, 2, 1 + k)) ELSE Zero, 1 + k>>
CompactDenotes(x, v, c, n) == LET p == ScaleCompactParse(x) IN p[1] /\ v = p[2] /\ c = p[3] /\ Lt2(v, n)
ScaleFixedDenotes(x, v, c, n) ==
  LET p == ScaleCompactParse(x) IN
  /\ p[1] /\ Lt2(p[2], 20)
  /\ LET l == ToNat(p[2]) IN
       /\ l <= NBytes(n) /\ Len(x) >= p[3] + l /\ c = p[3] + l
       /\ v = LEVal(SubSeq(x, p[3] + 1, p[3] + l)) /\ Lt2(v, n)

\* ---- DER -----------------------------------------------------------------
DerContent(v) == IF IsZero(v) THEN <<0>> ELSE IF v[Len(v)] >= 128 THEN <<0>> \o BEMin(v) ELSE BEMin(v)
DerLen(l) == IF l < 128 THEN <<l>> ELSE LET lb == BEMin(FromNat(l)) IN <<128 + Len(lb)>> \o lb
DerEnc(v) == <<2>> \o DerLen(Len(DerContent(v))) \o DerContent(v)
\* DER is canonical: the only accepted input is DerEnc(v) for an in-range v; the candidate v is read from the content octets
DerCandidate(x) ==
  IF Len(x) < 3 \/ x[1] # 2 THEN Zero
  ELSE LET hl == IF x[2] < 128 THEN 2 ELSE 2 + (x[2] - 128) IN
       IF Len(x) <= hl THEN Zero ELSE BEVal(SubSeq(x, hl + 1, Len(x)))
DerCanonical(x, n) == LET v == DerCandidate(x) IN IF Lt2(v, n) /\ DerEnc(v) = x THEN Ok1(v) ELSE Err

\* ---- text forms ------------------------------------------------------------
\* "0x..." minimal lower-case hex, "0x0" for zero; read off the bytes (two digits per byte, leading zero digit dropped)
HexMin(v) ==
  IF IsZero(v) THEN <<48, 120, 48>>
  ELSE LET be == Rev(v)
           all == [i \in 1..(2 * Len(be)) |->
                     IF i % 2 = 1 THEN DigitChar(be[(i + 1) \div 2] \div 16, FALSE) ELSE DigitChar(be[i \div 2] % 16, FALSE)]
       IN <<48, 120>> \o (IF all[1] = 48 THEN Tail(all) ELSE all)
Quoted(s) == <<34>> \o s \o <<34>>
HexChar(d) == DigitChar(d, FALSE)
HexFull(v, n) == IF n = 0 THEN <<48, 120, 48>>
                 ELSE LET be == ToBe(v, n) IN
                      <<48, 120>> \o [i \in 1..(2 * Len(be)) |->
                                        IF i % 2 = 1 THEN HexChar(be[(i + 1) \div 2] \div 16) ELSE HexChar(be[i \div 2] % 16)]
IsQuoted(x) == Len(x) >= 2 /\ x[1] = 34 /\ x[Len(x)] = 34
               /\ \A i \in 2..(Len(x) - 1) : x[i] # 34 /\ x[i] # 92 /\ x[i] >= 32 /\ x[i] < 127
Unquote(x) == SubSeq(x, 2, Len(x) - 1)
IsAscii(x) == \A i \in 1..Len(x) : x[i] < 128
AllDigits(x) == Len(x) > 0 /\ \A i \in 1..Len(x) : x[i] >= 48 /\ x[i] <= 57
DecVal(x) == FoldL(LAMBDA acc, c : AddSmall(MulSmall(acc, 10), c - 48), Zero, x)
\* JSON text (string form as FromStr reads it, or a plain number)
\* Accepted JSON texts: optional JSON whitespace around either a string (read as FromStr reads it) or a plain
\* run of digits.  Strings with escapes are outside the model (unconstrained); every other text is an error.
IsJsonWs(c) == c \in {32, 9, 10, 13}
JsonTrim(x) ==
  LET a == FirstIdx(x, LAMBDA c : ~IsJsonWs(c))
      b == LastIdx(x, LAMBDA c : ~IsJsonWs(c))
  IN IF a = 0 THEN <<>> ELSE SubSeq(x, a, b)
HasBackslash(x) == \E i \in 1..Len(x) : x[i] = 92
JsonDenotes(x, v, n) ==
  /\ Lt2(v, n)
  /\ LET t == JsonTrim(x) IN
       IF HasBackslash(t) THEN TRUE
       ELSE IF IsQuoted(t) THEN FromStrOutcome(<<"ok", v>>, Unquote(t), n)
       ELSE AllDigits(t) /\ v = DecVal(t)

\* ---- postgres wire formats ------------------------------------------------
\* signed big-endian integer of k bytes: <<negative?, magnitude>>
SignedBE(x) == IF x[1] >= 128 THEN <<TRUE, Sub(Pow2(8 * Len(x)), BEVal(x))>> ELSE <<FALSE, BEVal(x)>>
\* base-10^4 digits, most significant first, of v
RECURSIVE Base10kLE(_)
Base10kLE(v) == IF IsZero(v) THEN <<>> ELSE LET qr == DivModSmall(v, 10000) IN <<qr[2]>> \o Base10kLE(qr[1])
PgNumeric(v) ==
  LET le == Base10kLE(v)
      nd == Len(le)
      be == [i \in 1..nd |-> le[nd + 1 - i]]
      kept == SubSeq(be, 1, LastIdx(be, LAMBDA d : d # 0))        \* trailing zero digits are dropped
      weight == IF nd = 0 THEN 0 ELSE nd - 1
  IN NatBE(Len(kept), 2) \o NatBE(weight, 2) \o <<0, 0, 0, 0>>
     \o [i \in 1..(2 * Len(kept)) |-> IF i % 2 = 1 THEN kept[(i + 1) \div 2] \div 256 ELSE kept[i \div 2] % 256]
PgBits(v, n) == NatBE(n, 4) \o Rev(ToBytes(Shl(v, 8 * NBytes(n) - n), NBytes(n)))     \* bit string, left aligned

\* expected to_sql result for column type t: <<TRUE, bytes>> or <<FALSE>> (error); "open" types are not listed here
PgEnc(t, v, n, hx) ==
  LET IntK(k, cap) == IF Lt2(v, cap) THEN <<TRUE, Rev(ToBytes(v, k))>> ELSE <<FALSE>>
  IN CASE t = "pg_bool"    -> IF Lt2(v, 1) THEN <<TRUE, ToBytes(v, 1)>> ELSE <<FALSE>>
       [] t = "pg_int2"    -> IntK(2, 15)
       [] t = "pg_int4"    -> IntK(4, 31)
       [] t = "pg_int8"    -> IntK(8, 63)
       [] t = "pg_oid"     -> IntK(4, 32)
       [] t = "pg_money"   -> IF Lt2(v, 63) /\ Lt2(MulSmall(v, 100), 63) THEN <<TRUE, Rev(ToBytes(MulSmall(v, 100), 8))>> ELSE <<FALSE>>
       [] t = "pg_numeric" -> <<TRUE, PgNumeric(v)>>
       [] t = "pg_bytea"   -> <<TRUE, ToBe(v, n)>>
       [] t = "pg_bit"     -> IF n = 0 THEN <<FALSE>> ELSE <<TRUE, PgBits(v, n)>>
       [] t = "pg_varbit"  -> IF n = 0 THEN <<TRUE, <<0, 0, 0, 0>>>> ELSE <<TRUE, PgBits(v, n)>>
       [] t = "pg_char"    -> <<TRUE, hx>>
       [] t = "pg_text"    -> <<TRUE, hx>>
       [] t = "pg_varchar" -> <<TRUE, hx>>
       [] t = "pg_json"    -> <<TRUE, Quoted(hx)>>
       [] t = "pg_jsonb"   -> <<TRUE, <<1>> \o Quoted(hx)>>
PgTypes == {"pg_bool", "pg_int2", "pg_int4", "pg_int8", "pg_oid", "pg_money", "pg_numeric", "pg_bytea", "pg_bit",
            "pg_varbit", "pg_char", "pg_text", "pg_varchar", "pg_json", "pg_jsonb"}

\* from_sql: Ok(v) only if the input denotes v (v canonical); a few shapes are pinned exactly
PgIntDenotes(t, x, v) ==
  LET k == IF t = "pg_int2" THEN 2 ELSE IF t = "pg_int8" THEN 8 ELSE 4
  IN Len(x) = k /\ (t = "pg_oid" \/ x[1] < 128) /\ v = BEVal(x)
PgBitDenotes(x, v) ==
  /\ Len(x) >= 4
  /\ x[1] < 128
  /\ LET len == SmallBE(SubSeq(x, 1, 4))
         data == SubSeq(x, 5, Len(x))
         pad == (8 - (len % 8)) % 8
     IN \* the header's bit count must agree with the payload ("malformed headers are errors")
        len >= 0 /\ Len(data) = (len + 7) \div 8 /\ v = Div2(BEVal(data), pad)
\* FLOAT4 / FLOAT8: big-endian IEEE pattern of a finite non-negative float; the value is floor(f + 1/2) (C18)
PgFloatDenotes(x, v, fm, k) ==
  /\ Len(x) = k
  /\ LET p == BEVal(x) IN
       /\ ~FIsNaN(p, fm) /\ ~FIsInf(p, fm) /\ (FSign(p, fm) => FIsZeroVal(p, fm))
       /\ v = RoundHalfUp(p, fm)
PgNumericDenotes(x, v) ==
  /\ Len(x) >= 8
  /\ x[1] < 128
  /\ x[3] < 128
  /\ SubSeq(x, 5, 8) = <<0, 0, 0, 0>>
  /\ LET nd == SmallBE(SubSeq(x, 1, 2))
         w == SmallBE(SubSeq(x, 3, 4))
         ds == [i \in 1..nd |-> x[8 + 2 * i - 1] * 256 + x[8 + 2 * i]]
         pos == [i \in 1..(w + 1) |-> i]
     IN /\ Len(x) = 8 + 2 * nd
        /\ nd <= w + 1
        /\ \A i \in 1..nd : ds[i] < 10000
        /\ v = FoldL(LAMBDA acc, i : AddSmall(MulSmall(acc, 10000), IF i <= nd THEN ds[i] ELSE 0), Zero, pos)
\* text columns: the bytes are the FromStr text itself (digits are ASCII, so a non-ASCII text is never a value)
PgTextDenotes(x, v, n) == IsAscii(x) /\ FromStrOutcome(<<"ok", v>>, x, n)
\* JSON / JSONB columns: a text that starts and ends with a quote is unquoted once, anything else is read as it is
PgJsonDenotes(x, v, n) ==
  /\ IsAscii(x)
  /\ IF Len(x) >= 2 /\ x[1] = 34 /\ x[Len(x)] = 34 THEN FromStrOutcome(<<"ok", v>>, Unquote(x), n)
     ELSE FromStrOutcome(<<"ok", v>>, x, n)
PgDenotes(t, x, v, n) ==
  /\ Lt2(v, n)
  /\ IF t = "pg_bool" THEN (x = <<0>> /\ IsZero(v)) \/ (x = <<1>> /\ v = One)
     ELSE IF t \in {"pg_int2", "pg_int4", "pg_int8", "pg_oid"} THEN PgIntDenotes(t, x, v)
     ELSE IF t = "pg_money" THEN \* whole currency units, truncating towards zero: -0.99 .. -0.01 denote 0
          Len(x) = 8 /\ (IF x[1] < 128 THEN v = DivModSmall(BEVal(x), 100)[1]
                          ELSE IsZero(v) /\ Lt(Sub(Pow2(64), BEVal(x)), FromNat(100)))
     ELSE IF t = "pg_float4" THEN PgFloatDenotes(x, v, F32, 4)
     ELSE IF t = "pg_float8" THEN PgFloatDenotes(x, v, F64, 8)
     ELSE IF t = "pg_bytea" THEN Len(x) <= NBytes(n) /\ v = BEVal(x)
     ELSE IF t \in {"pg_bit", "pg_varbit"} THEN PgBitDenotes(x, v)
     ELSE IF t \in {"pg_char", "pg_text", "pg_varchar"} THEN PgTextDenotes(x, v, n)
     ELSE IF t = "pg_json" THEN PgJsonDenotes(x, v, n)
     ELSE IF t = "pg_jsonb" THEN Len(x) >= 1 /\ x[1] = 1 /\ PgJsonDenotes(Tail(x), v, n)
     ELSE IF t = "pg_numeric" THEN PgNumericDenotes(x, v)
     ELSE TRUE

\* ---- C16: op "enc" -----------------------------------------------------------
BN254r == <<1, 0, 0, 240, 147, 245, 225, 67, 145, 112, 185, 121, 72, 232, 51, 40, 93, 88, 129, 129, 182, 69, 80, 184, 41, 160, 49, 225, 114, 78, 100, 48>>
BN254q == <<71, 253, 124, 216, 22, 140, 32, 60, 141, 202, 113, 104, 145, 106, 129, 151, 93, 88, 129, 129, 182, 69, 80, 184, 41, 160, 49, 225, 114, 78, 100, 48>>

CheckEnc16(e) ==
  LET a == e.a  n == e.bits  nb == NBytes(n)
      rlp == RlpEnc(a)
      RlpFam(fb, fl, fm, fr) == [ b |-> Eq(e, fb, rlp), len |-> Eq(e, fl, Len(rlp)),
                                  max |-> Has(e, fm) /\ e[fm] >= Len(rlp),
                                  rt |-> Eq(e, fr, Ok2(a, Len(rlp))) ]
      al == RlpFam("alloy_b", "alloy_len", "alloy_max", "alloy_rt")
      f3 == RlpFam("f3_b", "f3_len", "f3_max", "f3_rt")
      f4 == RlpFam("f4_b", "f4_len", "f4_max", "f4_rt")
      sc == ScaleFixedEnc(a, n)
      cp == ScaleCompactEnc(a)
      der == DerEnc(a)
      le == ToLe(a, n)  be == ToBe(a, n)
      bin == NatLE(nb, 8) \o be
      hx == HexMin(a)
      Pg(t) == LET exp == PgEnc(t, a, n, hx)
               IN IF exp[1] THEN Eq(e, t, <<"ok", exp[2], Ok1(a)>>) ELSE Eq(e, t, Err)
  IN Merge([t \in PgTypes |-> Pg(t)],
     [ alloy_b |-> al.b, alloy_len |-> al.len, alloy_max |-> al.max, alloy_rt |-> al.rt,
       f3_b |-> f3.b, f3_len |-> f3.len, f3_max |-> f3.max, f3_rt |-> f3.rt,
       f4_b |-> f4.b, f4_len |-> f4.len, f4_max |-> f4.max, f4_rt |-> f4.rt,
       rlp_b |-> Eq(e, "rlp_b", rlp), rlp_rt |-> Eq(e, "rlp_rt", Ok1(a)),
       rlpbits_b |-> Eq(e, "rlpbits_b", RlpStr(be)), rlpbits_rt |-> Eq(e, "rlpbits_rt", Ok1(a)),
       scale_b |-> Eq(e, "scale_b", sc), scale_size |-> Eq(e, "scale_size", Len(sc)),
       \* size_hint is a capacity hint: it need not be exact, but a hint SMALLER than the bytes produced is not "consistent with
       \* the bytes produced" (C16); max_encoded_len is an upper bound
       scale_hint |-> Has(e, "scale_hint") /\ e.scale_hint >= Len(sc),
       scale_max |-> Has(e, "scale_max") /\ e.scale_max >= Len(sc),
       scale_rt |-> Eq(e, "scale_rt", Ok2(a, Len(sc))),
       \* compact encoding is documented as unsupported (assert) from 536 bits on
       compact_b |-> n >= 536 \/ Eq(e, "compact_b", cp),
       compact_hint |-> n >= 536 \/ (Has(e, "compact_hint") /\ e.compact_hint >= Len(cp)),
       compact_rt |-> n >= 536 \/ Eq(e, "compact_rt", Ok2(a, Len(cp))),
       ssz_b |-> Eq(e, "ssz_b", le), ssz_len |-> Eq(e, "ssz_len", nb),
       ssz_fixed |-> Eq(e, "ssz_fixed", <<TRUE, nb, nb>>), ssz_rt |-> Eq(e, "ssz_rt", Ok1(a)),
       borsh_b |-> Eq(e, "borsh_b", le), borsh_rt |-> Eq(e, "borsh_rt", Ok1(a)),
       borshbits_b |-> Eq(e, "borshbits_b", le), borshbits_rt |-> Eq(e, "borshbits_rt", Ok1(a)),
       der_b |-> Eq(e, "der_b", Ok1(der)), der_len |-> Eq(e, "der_len", Ok1(Len(der))),
       der_vlen |-> Eq(e, "der_vlen", Ok1(Len(DerContent(a)))), der_rt |-> Eq(e, "der_rt", Ok1(a)),
       der_any |-> Eq(e, "der_any", <<DerContent(a), Ok1(a)>>),
       der_int |-> Eq(e, "der_int", <<DerContent(a), Ok1(a)>>),
       der_uint |-> Eq(e, "der_uint", <<IF IsZero(a) THEN <<0>> ELSE BEMin(a), Ok1(a)>>),
       json_b |-> Eq(e, "json_b", Quoted(hx)), json_rt |-> Eq(e, "json_rt", Ok1(a)),
       jsonbits_b |-> Eq(e, "jsonbits_b", Quoted(HexFull(a, n))), jsonbits_rt |-> Eq(e, "jsonbits_rt", Ok1(a)),
       bincode_b |-> Eq(e, "bincode_b", bin), bincode_rt |-> Eq(e, "bincode_rt", Ok1(a)),
       bincodebits_b |-> Eq(e, "bincodebits_b", bin),
       biguint |-> Has(e, "biguint") /\ LEVal(e.biguint) = a, biguint_r |-> Has(e, "biguint_r") /\ LEVal(e.biguint_r) = a,
       bigint |-> Has(e, "bigint") /\ e.bigint[1] /\ LEVal(e.bigint[2]) = a,
       biguint_rt |-> Eq(e, "biguint_rt", Ok1(a)), bigint_rt |-> Eq(e, "bigint_rt", Ok1(a)),
       ark4 |-> Has(e, "ark4") /\ Len(e.ark4[1]) = 8 * ((n + 63) \div 64) /\ LEVal(e.ark4[1]) = a /\ e.ark4[2] = a /\ e.ark4[3] = a,
       \* float column types: encoding must not panic (round trip not required)
       pg_float |-> Has(e, "pg_float4") /\ Has(e, "pg_float8"),
       pg_accepts |-> Eq(e, "pg_accepts", TRUE) ])

\* the codec crates' own encodings of the equal primitive are validated by the same encoders
CheckRef16(e) ==
  LET a == e.a  small == Lt2(a, 64)
      S(f, v) == IF small THEN Eq(e, f, v) ELSE ~Has(e, f)
  IN [ alloy_u128 |-> Eq(e, "alloy_u128", RlpEnc(a)), f3_u128 |-> Eq(e, "f3_u128", RlpEnc(a)),
       f4_u128 |-> Eq(e, "f4_u128", RlpEnc(a)), rlp_u128 |-> Eq(e, "rlp_u128", RlpEnc(a)),
       compact_u128 |-> Eq(e, "compact_u128", ScaleCompactEnc(a)),
       scale_bytes |-> Eq(e, "scale_bytes", ScaleFixedEnc(a, 128)),
       ssz_u128 |-> Eq(e, "ssz_u128", ToBytes(a, 16)), borsh_u128 |-> Eq(e, "borsh_u128", ToBytes(a, 16)),
       der_u128 |-> Eq(e, "der_u128", DerEnc(a)),
       alloy_u64 |-> S("alloy_u64", RlpEnc(a)), rlp_u64 |-> S("rlp_u64", RlpEnc(a)),
       ssz_u64 |-> S("ssz_u64", ToBytes(a, 8)), borsh_u64 |-> S("borsh_u64", ToBytes(a, 8)),
       compact_u64 |-> S("compact_u64", ScaleCompactEnc(a)), der_u64 |-> S("der_u64", DerEnc(a)) ]

\* integrations that exist for specific widths only
CheckFixed16(e) ==
  LET a == e.a  n == e.bits  L == (n + 63) \div 64
      Opt1(f, ok) == ~Has(e, f) \/ ok
  IN [ pt_limbs |-> Opt1("pt_limbs", Len(e.pt_limbs) = 8 * L /\ LEVal(e.pt_limbs) = a),
       pt_rt |-> Opt1("pt_rt", e.pt_rt = a),
       h_bytes |-> Opt1("h_bytes", e.h_bytes = ToBe(a, n)), h_rt |-> Opt1("h_rt", e.h_rt = a),
       pod_bytes |-> Opt1("pod_bytes", Len(e.pod_bytes) = 8 * L /\ LEVal(e.pod_bytes) = a),
       pod_rt |-> Opt1("pod_rt", e.pod_rt = a), pod_zero |-> Opt1("pod_zero", e.pod_zero = Zero),
       ark3 |-> Opt1("ark3", Len(e.ark3[1]) = 8 * L /\ LEVal(e.ark3[1]) = a /\ e.ark3[2] = a /\ e.ark3[3] = a),
       \* field elements: Some iff below the field modulus, and the value comes back
       fr4 |-> Opt1("fr4", e.fr4 = IF Lt(a, BN254r) THEN Ok1(a) ELSE Err),
       fr4r |-> Opt1("fr4r", e.fr4r = IF Lt(a, BN254r) THEN Ok1(a) ELSE Err),
       fq4 |-> Opt1("fq4", e.fq4 = IF Lt(a, BN254q) THEN Ok1(a) ELSE Err),
       fr3 |-> Opt1("fr3", e.fr3 = IF Lt(a, BN254r) THEN Ok1(a) ELSE Err),
       fq3 |-> Opt1("fq3", e.fq3 = IF Lt(a, BN254q) THEN Ok1(a) ELSE Err),
       nopanic |-> e.pan = <<>> ]

\* ---- C17: op "dec" -------------------------------------------------------------
CheckDec17(e) ==
  LET x == e.x  n == e.bits  nb == NBytes(n)
      \* outcome is Ok only if the predicate holds for the returned value; an error is always allowed here
      OkOnly1(f, D(_)) == Has(e, f) /\ (e[f][1] = "ok" => D(e[f][2]))
      OkOnly2(f, D(_, _)) == Has(e, f) /\ (e[f][1] = "ok" => D(e[f][2], e[f][3]))
      big == Lt2(LEVal(x), n)
      Pg(t) == OkOnly1(t, LAMBDA v : PgDenotes(t, x, v, n))
  IN Merge([t \in PgTypes |-> Pg(t)],
     [ alloy |-> Eq(e, "alloy", RlpCanonical(x, n)),
       f3 |-> Eq(e, "f3", RlpCanonical(x, n)),
       f4 |-> Eq(e, "f4", RlpCanonical(x, n)),
       rlp |-> OkOnly1("rlp", LAMBDA v : RlpDenotes(x, v, n)),
       rlpbits |-> OkOnly1("rlpbits", LAMBDA v : RlpDenotes(x, v, n) /\ RlpHeader(x)[4] = nb),
       scale |-> OkOnly2("scale", LAMBDA v, c : ScaleFixedDenotes(x, v, c, n)),
       compact |-> n >= 536 \/ OkOnly2("compact", LAMBDA v, c : CompactDenotes(x, v, c, n)),
       \* fixed-size basic type: exactly ssz_fixed_len bytes ("truncated inputs are errors")
       ssz |-> OkOnly1("ssz", LAMBDA v : Len(x) = nb /\ v = LEVal(x) /\ Lt2(v, n)),
       borsh |-> OkOnly2("borsh", LAMBDA v, c : Len(x) >= nb /\ c = nb /\ v = LEVal(SubSeq(x, 1, nb)) /\ Lt2(v, n)),
       borshbits |-> OkOnly2("borshbits", LAMBDA v, c : Len(x) >= nb /\ c = nb /\ v = LEVal(SubSeq(x, 1, nb)) /\ Lt2(v, n)),
       der |-> Eq(e, "der", DerCanonical(x, n)),
       der_anyref |-> OkOnly1("der_anyref", LAMBDA v : Lt2(v, n) /\ DerEnc(v) = x),
       der_any_r |-> OkOnly1("der_any_r", LAMBDA v : Lt2(v, n) /\ DerEnc(v) = x),
       der_any_o |-> OkOnly1("der_any_o", LAMBDA v : Lt2(v, n) /\ DerEnc(v) = x),
       der_intref |-> OkOnly1("der_intref", LAMBDA v : Lt2(v, n) /\ DerContent(v) = x),
       der_uintref |-> OkOnly1("der_uintref", LAMBDA v : Lt2(v, n) /\ v = BEVal(x)),
       json |-> OkOnly1("json", LAMBDA v : JsonDenotes(x, v, n)),
       jsonbits |-> OkOnly1("jsonbits", LAMBDA v : JsonDenotes(x, v, n)),
       bincode |-> OkOnly1("bincode", LAMBDA v : /\ Len(x) >= 8 + nb /\ LEVal(SubSeq(x, 1, 8)) = FromNat(nb)
                                                  /\ v = BEVal(SubSeq(x, 9, 8 + nb)) /\ Lt2(v, n)),
       bincodebits |-> OkOnly1("bincodebits", LAMBDA v : /\ Len(x) >= 8 + nb /\ LEVal(SubSeq(x, 1, 8)) = FromNat(nb)
                                                          /\ v = BEVal(SubSeq(x, 9, 8 + nb)) /\ Lt2(v, n)),
       \* the serde visitor's integer and byte-string entry points: a number handed over by the data format denotes itself; a
       \* byte string is the big-endian binary form of exactly BYTES bytes (what the binary serializer writes)
       serde_u64 |-> Len(x) < 8 \/ OkOnly1("serde_u64", LAMBDA v : v = LEVal(SubSeq(x, 1, 8)) /\ Lt2(v, n)),
       serde_u128 |-> Len(x) < 16 \/ OkOnly1("serde_u128", LAMBDA v : v = LEVal(SubSeq(x, 1, 16)) /\ Lt2(v, n)),
       serde_bytes |-> OkOnly1("serde_bytes", LAMBDA v : Len(x) = nb /\ v = BEVal(x) /\ Lt2(v, n)),
       \* conversions from big integers are total functions of the value
       biguint |-> Eq(e, "biguint", IF big THEN Ok1(LEVal(x)) ELSE Err),
       bigint |-> Eq(e, "bigint", IF big THEN Ok1(LEVal(x)) ELSE Err),
       bigint_neg |-> Eq(e, "bigint_neg", IF IsZero(LEVal(x)) THEN Ok1(Zero) ELSE Err),
       \* asserting constructors from ark-ff BigInt: a value or a panic, never a non-canonical value
       ark |-> IF Len(x) # 8 * ((n + 63) \div 64) THEN TRUE
               ELSE IF big THEN Eq(e, "ark4", LEVal(x)) /\ Eq(e, "ark4r", LEVal(x))
               ELSE Panics(e, "ark4") /\ Panics(e, "ark4r"),
       pg_float4 |-> OkOnly1("pg_float4", LAMBDA v : PgDenotes("pg_float4", x, v, n)),
       pg_float8 |-> OkOnly1("pg_float8", LAMBDA v : PgDenotes("pg_float8", x, v, n)) ])

CheckCodec(e) ==
  CASE e.op = "enc"   -> CheckEnc16(e)
    [] e.op = "ref"   -> CheckRef16(e)
    [] e.op = "fixed" -> CheckFixed16(e)
    [] e.op = "dec"   -> CheckDec17(e)
    [] OTHER          -> [unknown_op |-> FALSE]
=============================================================================
