SPECIFICATION Spec
CONSTANTS
  Formats <- FormatsLarge
INVARIANTS Fields RoundHalf Near RoundTrip Monotone
CHECK_DEADLOCK FALSE
