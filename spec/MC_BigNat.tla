------------------------------ MODULE MC_BigNat ------------------------------
(* Model-checks BigNat against TLC's native integer arithmetic. *)
EXTENDS BigNat, TLC, FiniteSets
CONSTANTS N, Big   \* all pairs in 0..N; plus pairs from the set Big (values < 2^15)
VARIABLES a, b
Vals == (0..N) \cup Big
Init == a \in Vals /\ b = -1
Next == b = -1 /\ b' \in Vals /\ UNCHANGED a   \* second operand chosen in Next so that workers share the load
Spec == Init /\ [][Next]_<<a, b>>

A == FromNat(a)
Bn == FromNat(b)
Sgn(x) == IF x < 0 THEN -1 ELSE IF x > 0 THEN 1 ELSE 0
NatBitLen(n) == CHOOSE k \in 0..31 : (k = 0 /\ n = 0) \/ (k > 0 /\ 2^(k-1) <= n /\ (k = 31 \/ n < 2^k))
NatBit(n, i) == (n \div 2^i) % 2

RoundTrip0 == IsNat(A) /\ ToNat(A) = a
CmpOK0 == Cmp(A, Bn) = Sgn(a - b)
AddOK0 == IsNat(Add(A, Bn)) /\ ToNat(Add(A, Bn)) = a + b
SubOK0 == a >= b => (IsNat(Sub(A, Bn)) /\ ToNat(Sub(A, Bn)) = a - b)
AbsOK0 == ToNat(AbsDiff(A, Bn)) = (IF a >= b THEN a - b ELSE b - a) /\ ToNat(Monus(A, Bn)) = (IF a >= b THEN a - b ELSE 0)
MulOK0 == (a <= 32767 \/ b <= 32767 \/ (a <= 46340 /\ b <= 46340)) => IsNat(Mul(A, Bn)) /\ ToNat(Mul(A, Bn)) = a * b
SmallOK0 == /\ (a <= 32767 \/ b <= 32767 \/ (a <= 46340 /\ b <= 46340)) => (ToNat(MulSmall(A, b)) = a * b /\ IsNat(MulSmall(A, b)))
           /\ ToNat(AddSmall(A, b)) = a + b /\ IsNat(AddSmall(A, b))
           /\ b > 0 => LET qr == DivModSmall(A, b) IN IsNat(qr[1]) /\ ToNat(qr[1]) = a \div b /\ qr[2] = a % b
DivOK0 == b > 0 => LET qr == DivMod(A, Bn) IN IsNat(qr[1]) /\ IsNat(qr[2]) /\ ToNat(qr[1]) = a \div b /\ ToNat(qr[2]) = a % b
\* b used as a small shift / bit count (0..24)
K == b % 25
ShiftOK0 == /\ ToNat(Pow2(K)) = 2^K /\ IsNat(Pow2(K))
           /\ ToNat(Mod2(A, K)) = a % 2^K /\ IsNat(Mod2(A, K))
           /\ Lt2(A, K) = (a < 2^K)
           /\ ToNat(Div2(A, K)) = a \div 2^K /\ IsNat(Div2(A, K))
           /\ ((K <= 15 /\ a < 65536) => ToNat(Shl(A, K)) = a * 2^K /\ IsNat(Shl(A, K)))
           /\ BitAt(A, K) = NatBit(a, K)
           /\ ToNat(Ones(K)) = 2^K - 1
           /\ (a < 2^K => ToNat(NotK(A, K)) = 2^K - 1 - a /\ IsNat(NotK(A, K)))
BitsOK0 == /\ BitLen(A) = NatBitLen(a)
          /\ PopCount(A) = Cardinality({i \in 0..30 : NatBit(a, i) = 1})
          /\ (a > 0 => TrailingZeros(A) = CHOOSE i \in 0..30 : NatBit(a, i) = 1 /\ \A j \in 0..(i-1) : NatBit(a, j) = 0)
          /\ FromBits(ToBits(A, 20)) = A
          /\ ToBits(A, 20) = [i \in 1..20 |-> NatBit(a, i - 1)]
          /\ ToBytes(A, 3) = <<a % 256, (a \div 256) % 256, a \div 65536>>
LogicOK0 == /\ ToNat(BAnd(A, Bn)) = ToNat(FromBits([i \in 1..20 |-> NatBit(a, i-1) * NatBit(b, i-1)]))
           /\ ToNat(BOr(A, Bn)) = ToNat(FromBits([i \in 1..20 |-> IF NatBit(a, i-1) + NatBit(b, i-1) > 0 THEN 1 ELSE 0]))
           /\ ToNat(BXor(A, Bn)) = ToNat(FromBits([i \in 1..20 |-> (NatBit(a, i-1) + NatBit(b, i-1)) % 2]))
           /\ IsNat(BAnd(A, Bn)) /\ IsNat(BOr(A, Bn)) /\ IsNat(BXor(A, Bn))
PowOK0 == (b <= 3 /\ a < 1000 /\ a > 0) => ToNat(PowNat(A, b)) = a^b
RoundTrip == b >= 0 => RoundTrip0
CmpOK == b >= 0 => CmpOK0
AddOK == b >= 0 => AddOK0
SubOK == b >= 0 => SubOK0
AbsOK == b >= 0 => AbsOK0
MulOK == b >= 0 => MulOK0
SmallOK == b >= 0 => SmallOK0
DivOK == b >= 0 => DivOK0
ShiftOK == b >= 0 => ShiftOK0
BitsOK == b >= 0 => BitsOK0
LogicOK == b >= 0 => LogicOK0
PowOK == b >= 0 => PowOK0
=============================================================================
