------------------------------ MODULE UintFloat ------------------------------
(***************************************************************************)
(* Layer 1: floating-point conversions (from.rs).  A float is logged as    *)
(* its IEEE-754 bit pattern (a BigNat); Fmt = <<fraction bits, exponent    *)
(* bits>> is <<52, 11>> for f64 and <<23, 8>> for f32.  The exact value of *)
(* a finite float is M * 2^E.                                              *)
(***************************************************************************)
EXTENDS UintText

F64 == <<52, 11>>
F32 == <<23, 8>>
FSign(p, fm) == BitAt(p, fm[1] + fm[2]) = 1
FExp(p, fm)  == ToNat(Mod2(Div2(p, fm[1]), fm[2]))
FFrac(p, fm) == Mod2(p, fm[1])
FExpMax(fm)  == 2 ^ fm[2] - 1
FBias(fm)    == 2 ^ (fm[2] - 1) - 1
FIsNaN(p, fm) == FExp(p, fm) = FExpMax(fm) /\ ~IsZero(FFrac(p, fm))
FIsInf(p, fm) == FExp(p, fm) = FExpMax(fm) /\ IsZero(FFrac(p, fm))
\* mantissa and exponent of a finite float: value = M * 2^E
FM(p, fm) == IF FExp(p, fm) = 0 THEN FFrac(p, fm) ELSE Add(FFrac(p, fm), Pow2(fm[1]))
FE(p, fm) == BMax(FExp(p, fm), 1) - FBias(fm) - fm[1]
FIsZeroVal(p, fm) == FExp(p, fm) = 0 /\ IsZero(FFrac(p, fm))

\* floor(f + 1/2) for a finite non-negative float, computed exactly
RoundHalfUp(p, fm) ==
  LET m == FM(p, fm)  x == FE(p, fm)
  IN IF x >= 0 THEN Shl(m, x) ELSE Div2(Add(m, Pow2(-x - 1)), -x)

(* float -> Uint: NaN -> NotANumber; f < 0 -> ValueNegative (-0.0 is not    *)
(* below zero); otherwise floor(f + 1/2) if it is < 2^n, else ValueTooLarge *)
(* (+infinity included).  Payloads of the error variants (the "wrapped"     *)
(* value) are not fixed by the property; they must be canonical values.     *)
CheckFromFloat(e, fm) ==
  LET p == e.p  n == e.bits
      nan == FIsNaN(p, fm)
      negative == ~nan /\ FSign(p, fm) /\ ~FIsZeroVal(p, fm)
      inf == FIsInf(p, fm)
      v == IF nan \/ negative \/ inf THEN Zero ELSE RoundHalfUp(p, fm)
      large == ~nan /\ ~negative /\ (inf \/ ~Lt2(v, n))
      cls == IF nan THEN "nan" ELSE IF negative THEN "neg" ELSE IF large THEN "large" ELSE "ok"
  IN IF cls = "ok"
     THEN [ try |-> Eq(e, "try", <<"ok", v>>), wr |-> Eq(e, "wr", v), sat |-> Eq(e, "sat", v), from |-> Eq(e, "from", v) ]
     ELSE [ try |-> Has(e, "try") /\ e.try[1] = cls /\ Lt2(e.try[2], n),
            wr  |-> Has(e, "wr") /\ Lt2(e.wr, n),
            sat |-> Eq(e, "sat", IF cls = "large" THEN MaxU(n) ELSE Zero),
            from |-> Panics(e, "from") ]

(* Uint -> float.  With k = fraction bits + 1 significant bits: the result  *)
(* is one of the two representable neighbours of v (v truncated to its top  *)
(* k bits, or that plus one unit in the last place), exactly v when v is    *)
(* representable, and +infinity only when v >= (2^k - 1/2) * 2^(emax - k).  *)
\* <<isinf, value>> of a non-negative float pattern with an integral value; isinf = TRUE for +inf
FIntVal(p, fm) ==
  IF FIsInf(p, fm) THEN <<TRUE, Zero>>
  ELSE LET m == FM(p, fm)  x == FE(p, fm)
       IN IF x >= 0 THEN <<FALSE, Shl(m, x)>> ELSE <<FALSE, Div2(m, -x)>>
FIsIntegral(p, fm) ==
  FIsInf(p, fm) \/ (~FIsNaN(p, fm) /\ (FE(p, fm) >= 0 \/ IsZero(Mod2(FM(p, fm), -FE(p, fm)))))

IsNearFloat(v, p, fm) ==
  LET k == fm[1] + 1
      emax == FBias(fm) + 1                       \* values below 2^emax are in range
      bl == BitLen(v)
      t == bl - k                                 \* bits below the k-bit window
      r1 == IF t <= 0 THEN v ELSE Shl(Div2(v, t), t)
      r2 == IF t <= 0 THEN v ELSE (IF r1 = v THEN v ELSE Add(r1, Pow2(t)))
      fv == FIntVal(p, fm)
      \* 2 v >= (2^(k+1) - 1) * 2^(emax - k)
      mayinf == Ge(Shl(v, 1), Shl(Ones(k + 1), emax - k))
      \* from 2^emax on the neighbour below is the largest finite float (the one above is +infinity)
      low == IF Lt2(r1, emax) THEN r1 ELSE Shl(Ones(k), emax - k)
  IN /\ ~FSign(p, fm) /\ FIsIntegral(p, fm)
     /\ IF fv[1] THEN mayinf
        ELSE /\ fv[2] = low \/ fv[2] = r2
             /\ Lt2(fv[2], emax)

\* an ascending run of values: each conversion is near, and the floats are non-decreasing
RunOK(xs, ps, fm) ==
  /\ Len(ps) = Len(xs)
  /\ \A i \in 1..Len(xs) : IsNearFloat(xs[i], ps[i], fm)
  /\ \A i \in 1..(Len(xs) - 1) :
        Le(xs[i], xs[i + 1]) =>
          LET f == FIntVal(ps[i], fm)  g == FIntVal(ps[i + 1], fm)
          IN g[1] \/ (~f[1] /\ Le(f[2], g[2]))

CheckToFloat(e) ==
  [ f64v |-> Has(e, "f64v") /\ RunOK(e.xs, e.f64v, F64), f64r |-> Has(e, "f64r") /\ RunOK(e.xs, e.f64r, F64),
    f32v |-> Has(e, "f32v") /\ RunOK(e.xs, e.f32v, F32), f32r |-> Has(e, "f32r") /\ RunOK(e.xs, e.f32r, F32) ]

CheckFloat(e) ==
  CASE e.op = "from_f64" -> CheckFromFloat(e, F64)
    [] e.op = "from_f32" -> CheckFromFloat(e, F32)
    [] e.op = "to_f"     -> CheckToFloat(e)
    [] OTHER             -> [unknown_op |-> FALSE]
=============================================================================
