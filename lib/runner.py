"""Generic check runner: scenarios -> executor -> events -> TLC -> verdict + evidence."""
import importlib
import json
import os
import random
import shutil
import sys
import time

from . import vlib
from .vlib import ToolError

KNOWN_FILE = os.path.join(vlib.VERIF, "known_findings.jsonl")


def load_known(prop):
    out = []
    if os.path.exists(KNOWN_FILE):
        for line in open(KNOWN_FILE):
            line = line.strip()
            if not line or line.startswith("#") or line.startswith("fixed:"):
                continue
            k = json.loads(line)
            if k.get("property") == prop and k.get("status", "open") == "open":
                out.append(k)
    return out


def known_match(known, ev, field):
    """A mismatch on `field` of event `ev` is a known finding iff an entry of
    known_findings.jsonl names this operation and field and its predicate
    (a Python expression over the event `e`) holds."""
    helpers = {"V": vlib.frombytes, "len": len, "any": any, "all": all, "min": min, "max": max,
               "nlimbs": vlib.nlimbs}
    for k in known:
        if k["op"] != ev.get("op"):
            continue
        if field not in k["fields"] and "*" not in k["fields"]:
            continue
        try:
            if eval(k["when"], dict(helpers), {"e": ev, "f": field}):
                return k
        except Exception:
            continue
    return None


class Result:
    def __init__(self):
        self.events = 0
        self.states = 0
        self.transitions = 0
        self.shards = 0
        self.neg_injected = 0
        self.neg_rejected = 0
        self.violations = []      # (event, fields)
        self.known_hits = {}      # id -> count
        self.per_op = {}
        self.samples = []
        self.hangs = 0
        self.crashes = 0
        self.panics = {}
        self.distinct = set()
        self.extra = {}
        self.hooks = {}           # coverage counter name -> total hits in the code under test


def _nonzero(v):
    if isinstance(v, bool):
        return v
    if isinstance(v, int):
        return v != 0
    if isinstance(v, str):
        return len(v) > 0
    if isinstance(v, list):
        return any(_nonzero(x) for x in v)
    if isinstance(v, dict):
        return any(_nonzero(x) for x in v.values())
    return False


def outcome_class(ev, scen_keys):
    """Coarse outcome signature of an event: which calls panicked, and for each
    result its shape (flag value, Some/None) - used for coverage accounting."""
    sig = []
    for k in sorted(ev):
        if k in scen_keys or k in ("st", "pan", "neg", "cov"):
            continue
        v = ev[k]
        if isinstance(v, bool):
            sig.append(f"{k}={'T' if v else 'F'}")
        elif isinstance(v, list) and len(v) == 2 and isinstance(v[1], bool):
            sig.append(f"{k}.f={'T' if v[1] else 'F'}")
        elif isinstance(v, list) and len(v) == 0:
            sig.append(f"{k}=empty")
    for p in ev.get("pan", []):
        sig.append(f"{p}=panic")
    return sig


def run_pipeline(prop, group_scen, tier, seed, res, bins_release=False, trace_spec="Trace",
                 neg_skip=(), stateful=False, neg_every=97, hang_secs=20, workdir=None, pre_events=None):
    """group_scen: dict bin_name -> list of scenario dicts (all of one property).
    pre_events: events observed by other means (compiled probe programs): list of (event, scenario keys)."""
    workdir = workdir or os.path.join(vlib.OUT, prop)
    os.makedirs(workdir, exist_ok=True)
    known = load_known(prop)
    all_events = list(pre_events or [])      # (event dict, scen_keys)
    for binname, scens in group_scen.items():
        if not scens:
            continue
        sp = os.path.join(workdir, f"scen_{binname}.ndjson")
        ep = os.path.join(workdir, f"events_{binname}.ndjson")
        with open(sp, "w") as fh:
            for s in scens:
                fh.write(json.dumps(s, separators=(",", ":")) + "\n")
        st = vlib.execute(binname, sp, ep, release=bins_release, hang_secs=hang_secs)
        res.hangs += st["hangs"]
        res.crashes += st["crashes"]
        with open(ep) as fh:
            for s, line in zip(scens, fh):
                all_events.append((json.loads(line), set(s.keys())))
    # distinct non-trivial cases: distinct scenario lines that have at least one non-zero / non-empty operand
    # (an event whose inputs are all zero or empty exercises only the degenerate paths)
    import hashlib as _hl
    for ev, keys in all_events:
        scn = {k: ev[k] for k in keys if k in ev and k != "w"}
        operands = [v for k, v in scn.items() if k not in ("g", "op", "bits", "bits2", "t", "tr", "fl", "al", "dir", "fill", "seed", "k", "entry", "form")]
        nontrivial = (not operands) or any(_nonzero(v) for v in operands)
        if nontrivial:
            res.distinct.add(_hl.md5(json.dumps(scn, sort_keys=True).encode()).digest())
    # negative controls: deterministic sample, one corrupted field each
    stream = []
    neg_every = min(neg_every, max(5, len(all_events) // 150))
    for idx, (ev, keys) in enumerate(all_events):
        stream.append((ev, keys, False))
        if ev.get("st") == "ok" and (idx % neg_every == 0):
            c = vlib.negative_control(ev, keys, f"{prop}:{idx}", neg_skip)
            if c is not None:
                stream.append((c, keys, True))
                res.neg_injected += 1
    # shard: round-robin over blocks (a block = one event, or a history starting at a reset)
    nshards = max(1, min(vlib.NCPU, len(stream) // 50 + 1))
    shards = [[] for _ in range(nshards)]
    if stateful:
        blocks = []
        for item in stream:
            if item[0].get("op") == "reset" or not blocks:
                blocks.append([])
            blocks[-1].append(item)
    else:
        blocks = [[it] for it in stream]
    for bi, blk in enumerate(blocks):
        shards[bi % nshards].extend(blk)
    paths = []
    for i, sh in enumerate(shards):
        p = os.path.join(workdir, f"shard_{i}.ndjson")
        with open(p, "w") as fh:
            for ev, _, _ in sh:
                fh.write(json.dumps(ev, separators=(",", ":")) + "\n")
        paths.append(p)
    results = vlib.validate_shards(paths, workdir, trace_spec=trace_spec)
    for i, mism, st in results:
        res.states += st["distinct"]
        res.transitions += st["distinct"] - 1
        res.shards += 1
        bad = {ln: (op, fields) for ln, op, fields in mism}
        for ln, (ev, keys, isneg) in enumerate(shards[i], start=1):
            if isneg:
                if ln in bad:
                    res.neg_rejected += 1
                else:
                    res.extra.setdefault("neg_not_rejected", []).append(ev)
                continue
            res.events += 1
            for hk, hv in ev.get("cov", {}).items():
                res.hooks[hk] = res.hooks.get(hk, 0) + hv
            op = ev.get("op")
            po = res.per_op.setdefault(op, {"events": 0, "classes": {}})
            po["events"] += 1
            for c in outcome_class(ev, keys):
                po["classes"][c] = po["classes"].get(c, 0) + 1
            if len(res.samples) < 6 and po["events"] == 1:
                res.samples.append(ev)
            if ln in bad:
                fields = bad[ln][1]
                unknown = []
                for f in fields:
                    k = known_match(known, ev, f)
                    if k:
                        res.known_hits[k["id"]] = res.known_hits.get(k["id"], 0) + 1
                    else:
                        unknown.append(f)
                if unknown:
                    res.violations.append((ev, unknown, sorted(keys)))
    return res


def viol_classes(violations):
    out = {}
    for ev, fields, _ in violations:
        k = f"{ev.get('op')}:{','.join(sorted(fields))}"
        d = out.setdefault(k, {"count": 0, "widths": [], "first": None})
        d["count"] += 1
        if ev.get("bits") not in d["widths"] and len(d["widths"]) < 60:
            d["widths"].append(ev.get("bits"))
        if d["first"] is None:
            d["first"] = {k2: v for k2, v in ev.items() if k2 in ("bits", "bits2", "a", "b", "s", "i", "m", "x", "xs", "t", "v") or k2 in fields}
    return out


# Layer-2 models (algo/, design-level, run by ./check --setup) that bear on each property
LAYER2 = {
    "C02": ["AddMul_small", "InvRing_small", "InvRing_w8"],
    "C03": ["Knuth_small", "Div_small", "MG10_2x1_small", "MG10_3x2_small", "MG10_recip2_small"],
    "C04": ["LimbShift_small", "InvRing_small"],
    "C05": ["LimbShift_small"],
    "C06": ["LimbShift_small"],
    "C09": ["BaseConv_spigot_small", "BaseConv_le_small", "BaseConv_be_small", "Fmt_small", "MC_Text_small"],
    "C10": ["Pow_powmod_small", "Pow_addmod_small", "Lehmer_inv_small"],
    "C11": ["Redc_small", "Redc_square_small", "Redc_square_3limb", "Redc_square_edge_n2", "Redc_square_pastedge_n2", "Redc_square_edge_n3", "Redc_square_pastedge_n3", "Redc_mul_edge_n2", "Redc_mul_pastedge_n2"],
    "C12": ["Lehmer_prefix_small", "Lehmer_full_small", "Lehmer_ext_small", "Lehmer_ext_narrow"],
    "C13": ["Pow_pow_small", "Root_small", "Log_small"],
    "C14": ["Knuth_small", "Div_small", "MG10_2x1_small", "MG10_3x2_small", "MG10_recip2_small"],
    "C15": ["AddMul_small"],
    "C16": ["MC_Codecs_small"],
    "C17": ["MC_Codecs_small"],
    "C18": ["Float_to_small", "Float_from_small", "MC_Float_small"],
}


def layer2_for(prop):
    names = LAYER2.get(prop, [])
    if not names:
        return None
    try:
        with open(os.path.join(vlib.OUT, "layer2.json")) as fh:
            last = json.load(fh)
    except (OSError, ValueError):
        last = {}
    return {"note": "design-level models (algorithms with the limb width as a constant; for C09 / C16 / C17 / C18 also the self-consistency "
                    "of the text, codec and float oracles, spec/MC_Text.tla, MC_Codecs.tla, MC_Float.tla), model-checked exhaustively by ./check --setup; "
                    "they never change this check's exit code (DESIGN.md 8, algo/README.md)",
            "instances": {n: last.get(n, "not run since the last setup") for n in names}}


def finish(prop, tier, seed, res, t0, level, rule, assumptions, extra_cov=None, nontrivial=None, evidence_name=None):
    """Print KNOWN-FINDING / VIOLATION lines, write evidence, return exit code."""
    known = {k["id"]: k for k in load_known(prop)}
    for kid, cnt in sorted(res.known_hits.items()):
        print(f"KNOWN-FINDING: property={prop} {known[kid]['what']} [{kid}; {cnt} events]")
    replay_dir = os.path.join(vlib.OUT, "replay")
    os.makedirs(replay_dir, exist_ok=True)
    nviol = len(res.violations)
    for n, (ev, fields, keys) in enumerate(res.violations[:50]):
        path = os.path.join(replay_dir, f"{prop}-{n}.json")
        scn = {k: ev[k] for k in keys if k in ev}
        with open(path, "w") as fh:
            json.dump({"property": prop, "failing_calls": fields, "scenario": scn, "event": ev,
                       "repo": vlib.repo_state(), "tier": tier, "seed": seed}, fh)
        print(f"VIOLATION property={prop} replay={path}")
        print(f"  op={ev.get('op')} bits={ev.get('bits')} failing={fields} st={ev.get('st')}")
    if nviol > 50:
        print(f"  ... and {nviol - 50} more violating events (summarised in evidence)")
    # vacuity control: the specification must reject (nearly) all corrupted copies.  A few corruptions land on
    # outcomes the contract leaves open (e.g. the sign flag of gcd_extended when the gcd is 0); they are listed.
    neg_ok = res.neg_rejected >= 0.8 * res.neg_injected
    cov = {
        "states": res.states,
        "transitions": res.transitions,
        "traces_validated_against_impl": res.shards,
        "samples": res.samples[:6] if res.samples else [{"note": "no events"}],
        "evaluations": res.events,
        "distinct_nontrivial": nontrivial if nontrivial is not None else (len(res.distinct) + res.extra.pop("_extra_distinct", 0)),
        "rule": rule + "; distinct_nontrivial = number of distinct scenario lines (md5 of the input part) with at least one "
                       "non-zero / non-empty operand, counted by the runner (machine transitions and histories are added for C04)",
        "per_op": res.per_op,
        "negative_controls": {"injected": res.neg_injected, "rejected": res.neg_rejected,
                              "not_rejected_examples": [
                                  {k: v for k, v in ev.items() if k in ("op", "bits", "neg") or k == ev.get("neg")}
                                  for ev in res.extra.get("neg_not_rejected", [])[:5]]},
        "known_findings_hit": res.known_hits,
        "hook_counters": dict(sorted(res.hooks.items())),
        "hangs": res.hangs,
        "crashes": res.crashes,
        "violating_events": nviol,
        "violation_classes": viol_classes(res.violations),
    }
    l2 = layer2_for(prop)
    if l2:
        cov["layer2_models"] = l2
    if extra_cov:
        cov.update(extra_cov)
    cov.update(res.extra if not res.extra.get("neg_not_rejected") else
               {k: v for k, v in res.extra.items() if k != "neg_not_rejected"})
    evd = {
        "property_id": prop, "tier": tier, "seed": seed, "level": level,
        "coverage": cov, "assumptions": assumptions,
        "wall_s": round(time.time() - t0, 2), "violations": nviol,
    }
    os.makedirs(os.path.join(vlib.VERIF, "evidence"), exist_ok=True)
    # a --replay run re-executes one stored scenario: its record goes next to the evidence, not over it
    with open(os.path.join(vlib.VERIF, "evidence", f"{evidence_name or prop}.json") if not evidence_name
              else os.path.join(vlib.OUT, f"{evidence_name}.json"), "w") as fh:
        json.dump(evd, fh, indent=1)
    if not neg_ok:
        bad = res.extra.get("neg_not_rejected", [])
        sys.stderr.write(f"TOOL-ERROR: {len(bad)} negative controls were not rejected by the specification, e.g. "
                         f"{json.dumps(bad[0])[:400] if bad else ''}\n")
        return 2
    return 1 if nviol else 0
