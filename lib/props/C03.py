"""C03 division and remainder: Euclidean contract through every form."""
import random
from ..vlib import WIDTHS, tobytes, pairs, values, nlimbs, boundary_values, rand_value, LIMB_ALPHABET

BINS = ["ux_arith"]
RULE = ("all (n, d) at BITS<=6 incl. d=0 (exhaustive); at the other widths divisors of every trimmed limb "
        "length 1..LIMBS with every leading_zeros class, and adversarial numerators: n=q*d+r from extreme q,d,r, "
        "n=(q+1)*d-delta (3-by-2 estimate one too high -> add-back), numerator windows equal to the divisor's "
        "leading limbs (forced digit), exact multiples whose digit estimate is one too low (final r >= d correction with r = d, "
        "found by simulating the 2-by-1 and 3-by-2 digit steps), all-ones lower divisor limbs, n<d, n=d, n=d+-1; every pair through "
        "div_rem, 12 operator forms, checked/wrapping forms, div_ceil, (checked_)next_multiple_of; a case is one "
        "distinct (width, n, d)")


def divisors(bits, rng, per_len):
    """Divisors of every limb length, normalised and un-normalised top limb."""
    L = nlimbs(bits)
    m = (1 << bits) - 1
    out = []
    for ln in range(1, L + 1):
        topbits = 64 if ln < L else bits - 64 * (L - 1)
        for lz in sorted({0, 1, 31, 32, 62, 63}):
            if lz >= topbits:
                continue
            for _ in range(per_len):
                top = (rng.getrandbits(topbits - lz) | (1 << (topbits - lz - 1)))
                kind = rng.randrange(4)
                if kind == 0:
                    low = (1 << (64 * (ln - 1))) - 1           # all-ones lower limbs
                elif kind == 1:
                    low = 0
                else:
                    low = rng.getrandbits(64 * (ln - 1)) if ln > 1 else 0
                out.append(((top << (64 * (ln - 1))) | low) & m)
    return [d for d in out if d]


def adversarial(bits, rng, count):
    if bits == 0:
        return [(0, 0)]
    m = (1 << bits) - 1
    L = nlimbs(bits)
    out = []
    ds = divisors(bits, rng, 1 if count < 200 else 3) + [1, 2, 3, m, m - 1, (m >> 1) + 1]
    ds = [d for d in ds if 0 < d <= m]
    for d in ds:
        qmax = m // d
        qs = {0, 1, qmax, max(qmax - 1, 0), qmax >> 1, min(qmax, 2**64 - 1), min(qmax, 2**64), min(qmax, 2**63)}
        if qmax > 0:
            qs.add(rng.randrange(0, qmax + 1))
        for q in qs:
            for r in {0, 1, d - 1, d >> 1, rng.randrange(0, d)}:
                if r < d and q * d + r <= m:
                    out.append((q * d + r, d))
            # estimate one too high: just below a multiple
            for delta in (1, 2, 1 << 64, (1 << 64) + 1, rng.getrandbits(20) + 1):
                n = (q + 1) * d - delta
                if 0 <= n <= m:
                    out.append((n, d))
        out += [(d, d), (d - 1, d), (min(d + 1, m), d), (0, d), (m, d)]
        # numerator whose leading limbs equal the divisor's leading limbs (forced digit 2^64-1)
        dl = (d.bit_length() + 63) // 64
        for extra in range(1, L - dl + 1):
            n = (d << (64 * extra)) - 1
            if n <= m:
                out.append((n, d))
                out.append((n - rng.getrandbits(64), d))
            top2 = d >> (64 * max(dl - 2, 0))
            n = (top2 << (64 * (extra + max(dl - 2, 0)))) | rng.getrandbits(64 * (extra + max(dl - 2, 0)))
            if n <= m:
                out.append((n, d))
    rng.shuffle(out)
    out = list(dict.fromkeys(out))
    keep = out[:count]
    keep += [(n, 0) for n in (0, 1, m)]
    return keep


def forced_digit_cases(bits, rng, count):
    """Knuth D with the running remainder's two leading limbs equal to the divisor's two leading limbs (quotient digit
    forced to 2^64-1), for normalised (shift = 0) and un-normalised divisors of every length >= 3, with the third
    remainder limb just below the divisor's third limb and large (so that partial-subtraction shortcuts would carry).
    Built as N = rho * B^k + tail with rho = [.., r, d_{n-2}, d_{n-1}], r < d_{n-3}."""
    Bw = 1 << 64
    L = nlimbs(bits)
    mx = (1 << bits) - 1
    out = []
    for n in range(3, L + 1):
        for _ in range(count):
            topbits = 64 if n < L else bits - 64 * (L - 1)
            lz = rng.choice([0, 0, 1, 31, 63])
            if lz >= topbits:
                lz = 0
            top = ((1 << (topbits - lz)) - 1) if rng.random() < 0.5 else (rng.getrandbits(topbits - lz) | (1 << (topbits - lz - 1)))
            d = [rng.choice([Bw - 1, Bw - 2, 1 << 63, rng.getrandbits(64)]) for _ in range(n - 1)] + [top]
            d[n - 2] = rng.choice([Bw - 1, Bw - 2, (1 << 63) + 5, rng.getrandbits(64) | (1 << 63)])
            if d[n - 3] == 0:
                d[n - 3] = Bw - 1
            r = rng.choice([d[n - 3] - 1, max(d[n - 3] - 2, 0), d[n - 3] >> 1])
            rho = [rng.getrandbits(64) for _ in range(n - 3)] + [r, d[n - 2], d[n - 1]]
            dv = sum(x << (64 * i) for i, x in enumerate(d))
            rv = sum(x << (64 * i) for i, x in enumerate(rho))
            for k in range(0, L - n + 1):
                tail = rng.getrandbits(64 * k) if k else 0
                N = (rv << (64 * k)) | tail
                if N <= mx and dv <= mx and dv:
                    out.append((N, dv))
    return out


_B = 1 << 64


def _mg10_2x1_increment_on_exact(u, d):
    """div_2x1_mg10 (Moller-Granlund algorithm 4) on u = k*d: does the LAST correction (r >= d => q+1) fire with r == d?"""
    v = ((1 << 128) - 1) // d - _B
    u1, u0 = u >> 64, u % _B
    q = (u1 * v + u) % (1 << 128)
    q1, q0 = ((q >> 64) + 1) % _B, q % _B
    r = (u0 - q1 * d) % _B
    if r > q0:
        q1 = (q1 - 1) % _B
        r = (r + d) % _B
    return r == d


def _mg10_3x2_increment_on_exact(u, d):
    """div_3x2_mg10 (algorithm 5) on u = k*d, d two limbs normalised: last correction fires with r == d?"""
    v = ((1 << 192) - 1) // d - _B
    d1, d0 = d >> 64, d % _B
    u21, u0 = u >> 64, u % _B
    q = ((u21 >> 64) * v + u21) % (1 << 128)
    q1, q0 = q >> 64, q % _B
    r1 = ((u21 % _B) - q1 * d1) % _B
    t = d0 * q1
    r = ((r1 << 64 | u0) - t - d) % (1 << 128)
    q1 = (q1 + 1) % _B
    if (r >> 64) >= q0:
        q1 = (q1 - 1) % _B
        r = (r + d) % (1 << 128)
    return r == d


def estimate_low_exact(bits, rng, count):
    """Exact multiples n = K*d whose quotient digits are close to 2^64 and for which the reciprocal-based digit estimate
    is one too LOW, so that the final `r >= d` correction fires with r == d (the only inputs on which `>=` and `>`
    differ there).  Found by simulating the two Moller-Granlund digit steps; one- and two-limb divisors, with and
    without a normalisation shift, numerators of every length."""
    mx = (1 << bits) - 1
    L = nlimbs(bits)
    out = []
    if bits < 128:
        return out
    tries = 0
    while len(out) < count and tries < count * 60:
        tries += 1
        two = L >= 3 and rng.random() < 0.5
        dl = 2 if two else 1
        s = rng.choice([0, 0, 1, 7, 32, 63])
        dn = (rng.getrandbits(64 * dl - s) | (1 << (64 * dl - s - 1)))          # un-normalised divisor, shift s
        if not two and rng.random() < 0.3:
            dn = 0x800000005a827996 >> s or 1
        d = dn << s
        k = _B - rng.choice([1, 2, 2, 3, 4, rng.randrange(1, 200)])
        u = k * d
        hit = _mg10_3x2_increment_on_exact(u, d) if two else _mg10_2x1_increment_on_exact(u, d)
        if not hit:
            continue
        K = k
        for extra in range(0, L - dl):          # longer numerators: more digits, same leading step
            n = K * dn
            if n <= mx:
                out.append((n, dn))
            K = (K << 64) | (_B - rng.randrange(1, 5))
    return out


def reciprocal_sensitive_cases(bits, sens, rng, per):
    """Divisions whose divisor's normalised leading limb is one of the values for which a single wrong entry of the reciprocal
    seed table shows (C14.table_sensitive_divisors) and whose running remainder is within 0.01 % of the divisor - the only
    windows in which a reciprocal that is one too small costs more than the single correction step repairs.  One- and
    two-limb divisors, with and without a normalisation shift."""
    mx = (1 << bits) - 1
    L = nlimbs(bits)
    out = []
    if L < 2:
        return out
    for d in sens:
        for _ in range(per):
            u1 = d - 1 - rng.randrange(0, max(1, d >> 13))
            n = (u1 << 64) | rng.getrandbits(64)
            dn = d
            tz = (d & -d).bit_length() - 1
            s = rng.choice([0, min(tz, 1), min(tz, 3)])
            if rng.random() < 0.3 and L >= 3:            # two-limb divisor: the 3-by-2 step uses the reciprocal of the top limb too
                d0 = rng.getrandbits(64)
                dn = (d << 64) | d0
                n = (((d << 64) | d0) - 1 - rng.getrandbits(100)) << 64 | rng.getrandbits(64)
                s = 0
            dn >>= s
            n >>= s
            for extra in range(0, max(1, L - 3)):
                if n <= mx and dn:
                    out.append((n, dn))
                n = (n << 64) | rng.getrandbits(64)
                if extra >= 1 and rng.random() < 0.7:
                    break
    return out


def zero_run_cases(bits, rng, count):
    """Numerators with all-zero interior limbs below an exact multiple of the divisor: the running remainder is zero when the
    zero limbs are reached, and with an un-normalised divisor the bits that the inline normalisation pulls up from the next
    lower limb are all that the step has to divide."""
    mx = (1 << bits) - 1
    L = nlimbs(bits)
    out = []
    if L < 3:
        return out
    for _ in range(count):
        dl = 1 if L < 4 or rng.random() < 0.7 else 2
        s = rng.choice([0, 1, 4, 31, 60, 63])
        d = (rng.getrandbits(64 * dl - s) | (1 << (64 * dl - s - 1))) if rng.random() < 0.6 else rng.choice([3, 10, 7, 10 ** 9, (1 << 32) + 1, 10 ** 18])
        j = rng.randrange(2, L)                                   # the multiple starts at limb j
        zeros = rng.randrange(1, j)                               # this many all-zero limbs directly below it
        k = rng.choice([1, 2, rng.getrandbits(10) + 1, rng.getrandbits(60) + 1])
        low_limbs = j - zeros
        low = (rng.getrandbits(64 * low_limbs) | (1 << (64 * low_limbs - 1))) if rng.random() < 0.8 else rng.getrandbits(64 * low_limbs)
        for top in (k * d, k * d + rng.randrange(0, d)):
            n = (top << (64 * j)) | low
            if n <= mx:
                out.append((n, d))
    return out


def low_zero_divisor_cases(bits, rng, count):
    """Divisors whose LOW limbs are zero (d = x * 2^(64 k)) against numerators with fewer, as many and more significant limbs than
    that zero run, and numerators equal to / one off the divisor: a dispatcher that strips or skips zero limbs of the divisor
    must still handle the numerator-shorter-than-divisor and equal-operand cases (seeds T3-B, T9-A)."""
    L = (bits + 63) // 64
    mx = (1 << bits) - 1
    W = (1 << 64) - 1
    out = []
    for k in range(1, L):
        for x in (1, W, 1 << 63, rng.getrandbits(64) | 1, rng.getrandbits(64 * max(L - k, 1)) | 1, (W << 64) | W):
            d = (x << (64 * k)) & mx
            if d == 0:
                continue
            ns = [1, 5, W, d, d - 1, d + 1, (d << 1) & mx, d | 1, mx, mx & ~((1 << (64 * k)) - 1)]
            for j in range(1, L + 1):
                ns.append(rng.getrandbits(64 * j) & mx)                     # every numerator length
                ns.append(((1 << (64 * j)) - 1) & mx)
            out += [(n & mx, d) for n in ns]
    # equal and nearly equal multi-limb operands without zero limbs as well
    for _ in range(6):
        d = rng.getrandbits(bits) | (1 << (bits - 1)) | 1
        out += [(d, d), (d - 1, d), ((d + 1) & mx, d), (d, d - 1)]
    out = [(n, d) for n, d in dict.fromkeys(out) if d != 0]
    if len(out) > count:
        out = rng.sample(out, count)
    return out


def scenarios(tier, rng):
    quick = tier == "quick"
    sc = []
    from . import C14
    sens = C14.table_sensitive_divisors(random.Random(rng.getrandbits(32)), 3 if quick else 5, 700 if quick else 2000)
    for bits in WIDTHS:
        if bits <= 6:
            ps = pairs(bits, rng, 0)
        else:
            if bits <= 128:
                n = 300 if quick else 3000
            elif bits <= 576:
                n = 160 if quick else 1500
            elif bits <= 1100:
                n = 30 if quick else 200
            else:
                n = 3 if quick else 8
            ps = adversarial(bits, rng, n)
            if bits <= 576:
                ps += pairs(bits, rng, n // 3)
            if 129 <= bits <= 1100:
                ps += forced_digit_cases(bits, rng, 3 if quick else 25)
            if 128 <= bits <= 1100:
                ps += estimate_low_exact(bits, rng, 12 if quick else 120)
            if bits == 128 or (bits in (129, 192, 256, 320) and not quick):
                ps += reciprocal_sensitive_cases(bits, sens, rng, 3 if quick else 6)
            elif bits in (192, 256, 320, 521):
                ps += reciprocal_sensitive_cases(bits, rng.sample(sens, min(len(sens), 60)), rng, 2)
            if 129 <= bits <= 1100:
                ps += zero_run_cases(bits, rng, 30 if quick else 300)
                ps += low_zero_divisor_cases(bits, rng, 60 if quick else 600)
        for a, b in dict.fromkeys(ps):
            sc.append({"g": "arith", "op": "div", "bits": bits, "a": tobytes(a), "b": tobytes(b)})
    return {"ux_arith": sc}
