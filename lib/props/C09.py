"""C09 radix conversion, parsing, formatting."""
from ..vlib import WIDTHS, tobytes, values, nlimbs, boundary_values, rand_value

BINS = ["ux_text"]
RULE = ("digit iterators and from_base_le/be over bases {0,1,2,3,7,8,10,16,36,37,64,255,256,10^4,10^19,2^32,2^63,2^64-1} "
        "with values 0,1,b^k-1,b^k,b^k+1 around the formatter's chunk boundaries and 2^BITS, digit strings overflowing by "
        "one digit / one unit, with a digit = b, with leading and trailing zeros; formatting over 6 traits x 8 flag sets x "
        "7 fill/alignment forms x widths {none,1,20,len+-1} (x?/X? excluded: not in the property's flag list), each also "
        "applied to u128 (the reference); parsing over radices 0..=65 x {prefixes} x digit classes (valid lower/upper/mixed, "
        "with _, digit = radix, digit = radix+1, non-alphabet, non-ASCII at offsets 1,2, every ASCII code point 0..127 and Unicode digit "
        "look-alikes alone and inside a numeral (radices 2, 10, 16, 36, 64 at 3 widths), base-64 alphabets) x {fits, "
        "=2^BITS-1, =2^BITS}; a case is one distinct call")

BASES = [2, 3, 7, 8, 10, 16, 36, 37, 64, 255, 256, 10**4, 10**19, 2**32, 2**63, 2**64 - 1]
TRAITS = ["d", "?", "b", "o", "x", "X"]
FLAGS = ["", "#", "+", "+#", "0", "#0", "+0", "+#0"]
ALIGNS = ["", "<", "^", ">", "*<", "*^", "*>"]
A36 = "0123456789abcdefghijklmnopqrstuvwxyz"
A64 = "ABCDEFGHIJKLMNOPQRSTUVWXYZabcdefghijklmnopqrstuvwxyz0123456789+/"


def digits_of(v, b):
    ds = []
    while v:
        ds.append(v % b)
        v //= b
    return ds


def text_of(v, r, alphabet):
    ds = digits_of(v, r)
    return "".join(alphabet[d] for d in reversed(ds)) or alphabet[0]


def scenarios(tier, rng):
    quick = tier == "quick"
    sc = []
    QUICK_TEXT_WIDTHS = {0, 1, 3, 7, 8, 16, 60, 64, 65, 127, 128, 129, 256, 257, 521}
    for bits in WIDTHS:
        mx = (1 << bits) - 1
        big = bits > 1100
        lean = bits not in QUICK_TEXT_WIDTHS      # the other widths get formatting + a thin slice of parsing / digit strings
        # values around chunk boundaries of the formatter and around 2^BITS
        vs = {0, 1, mx, mx - 1 if mx else 0, mx >> 1}
        for c in (10**19, 2**63, 2**60, 8**21):
            for k in (1, 2, 3):
                for d in (-1, 0, 1):
                    vs.add(c**k + d)
        for _ in range(2 if quick else 12):
            vs.add(rand_value(rng, bits))
        vs = sorted(v for v in vs if 0 <= v <= mx)
        if big:
            vs = [0, mx, rand_value(rng, bits), 10**19]
        # --- to_base
        for b in ([0, 1] + BASES):
            pick = vs if not quick else vs[:3] + vs[-2:] + rng.sample(vs, min(3, len(vs)))
            extra = [x for k in (1, 2, 5) for x in (b**k - 1, b**k, b**k + 1) if b >= 2 and 0 <= x <= mx]
            for a in dict.fromkeys(list(pick) + extra[: 4 if quick else 9]):
                if big and b not in (10, 2**64 - 1, 10**19, 0):
                    continue
                sc.append({"g": "text", "op": "tobase", "bits": bits, "a": tobytes(a), "base": tobytes(b)})
        # --- to_base, base sweep: one base of every bit length 2..64 (a random one, and alternately 2^k - 1 / 2^k + 1; all four
        # in the thorough tier) - a fast path chosen by the SIZE of the base must agree with the general path on each size class
        if bits in ((64, 128, 256) if quick else (60, 64, 65, 127, 128, 129, 256, 257, 521)):
            for k in range(2, 65):
                lo, hi = 1 << (k - 1), (1 << k) - 1
                bs = [rng.randrange(lo, hi + 1), hi if k % 2 else min(lo + 1, hi)]
                if not quick:
                    bs += [lo, hi, min(lo + 1, hi), rng.randrange(lo, hi + 1)]
                for b in dict.fromkeys(bs):
                    for a in dict.fromkeys([mx, rand_value(rng, bits), min(mx, 1 << 100), min(mx, (1 << 64) + 1)]):
                        sc.append({"g": "text", "op": "tobase", "bits": bits, "a": tobytes(a), "base": tobytes(b)})
                # the same size classes for from_base_le / from_base_be: the digits of a value that fits and of 2^BITS
                for v in (rand_value(rng, bits), mx + 1):
                    sc.append({"g": "text", "op": "frombase", "bits": bits, "base": tobytes(bs[0]), "ds": [tobytes(d) for d in digits_of(v, bs[0])]})
        # --- from_base
        for b in ([0, 1] + BASES):
            if (big or lean) and b not in (10**19, 2**64 - 1, 1):
                continue
            cands = []
            for v in ([mx, mx + 1, mx + 2, (mx + 1) * max(b, 2), 0, 1, mx >> 1] if not quick else [mx, mx + 1, (mx + 1) * max(b, 2)]) + [rand_value(rng, bits) for _ in range(1 if quick else 6)]:
                if b >= 2:
                    ds = digits_of(v, b)
                    cands.append(ds)
                    cands.append(ds + [0, 0])                      # leading zeros (trailing in LE): early-break path
                    cands.append([0, 0] + ds)
                    if ds:
                        bad = list(ds); bad[rng.randrange(len(ds))] = b; cands.append(bad)       # a digit = b
                        bad = list(ds); bad[-1] = b + 1 if b < 2**64 - 1 else b; cands.append(bad)
                        up = list(ds); up[0] = min(up[0] + 1, b - 1); cands.append(up)
                        cands.append(ds + [1])                     # one digit too many
                        cands.append(ds + [0] * 3 + [1])
                else:
                    cands += [[], [0], [1, 2]]
            cands.append([])
            seen = set()
            for ds in cands:
                t = tuple(ds)
                if t in seen or any(d >= 2**64 for d in ds):
                    continue
                seen.add(t)
                # the digit list is handed to from_base_le and from_base_be as it is
                sc.append({"g": "text", "op": "frombase", "bits": bits, "base": tobytes(b), "ds": [tobytes(d) for d in ds]})
        # --- formatting
        fvs = ([0, mx] + rng.sample(vs, min(8, len(vs)))) if not quick else [0, mx] + rng.sample(vs, min(2, len(vs)))
        if big:
            fvs = [mx, 10**19]
        for a in fvs:
            combos = [(t, f, al) for t in TRAITS for f in FLAGS for al in ALIGNS]
            if quick or big:
                combos = rng.sample(combos, 24 if not big else 12) + [(t, "", "") for t in TRAITS]
            elif bits not in QUICK_TEXT_WIDTHS:
                combos = rng.sample(combos, 60) + [(t, "", "") for t in TRAITS]
            for (t, f, al) in combos:
                ln = len(text_of(a, {"d": 10, "?": 10, "b": 2, "o": 8, "x": 16, "X": 16}[t], A36))
                for w in rng.sample([None, 1, 20, ln - 1, ln, ln + 1, ln + 3, ln + 4], 3 if quick else 4):
                    if w is not None and w < 0:
                        continue
                    d = {"g": "text", "op": "fmt", "bits": bits, "a": tobytes(a), "tr": t, "fl": f, "al": al,
                         "plus": "+" in f, "alt": "#" in f, "zero": "0" in f,
                         "dir": al[-1] if al else ">", "fill": 42 if len(al) == 2 else 32}
                    if w is not None:
                        d["w"] = w
                    sc.append(d)
        # --- parsing
        if big or lean:
            radices = [10, 16, 64]
        elif quick:
            radices = sorted({0, 1, 2, 8, 10, 16, 36, 37, 62, 64, 65, rng.randrange(3, 36), rng.randrange(38, 64)})
        else:
            radices = (list(range(0, 66)) + [2**32, 2**64 - 1]) if bits in (0, 8, 64, 65, 127, 256) else \
                sorted({0, 1, 2, 3, 7, 8, 10, 16, 35, 36, 37, 38, 61, 62, 63, 64, 65, rng.randrange(3, 36), rng.randrange(38, 64)})
        for r in radices:
            strs = []
            rr = min(max(r, 2), 64)
            alpha = A36 if rr <= 36 else A64
            for v in ([mx, mx + 1, 0, 1, mx >> 1, rand_value(rng, bits)] if not quick else [mx, mx + 1]):
                t = text_of(v, rr, alpha)
                strs += [t, t.upper() if rr <= 36 else t, "_" + t[:1] + "_" + t[1:], "00" + t if rr <= 36 else "AA" + t]
                if rr <= 36:
                    mixed = "".join(c.upper() if i % 2 else c for i, c in enumerate(t))
                    strs.append(mixed)
                    for pfx in ("0x", "0X", "0o", "0O", "0b", "0B"):
                        pr = {"x": 16, "o": 8, "b": 2}[pfx[1].lower()]
                        strs.append(pfx + text_of(v, pr, A36))
                    strs.append("0x")
                # digit = radix, digit = radix + 1
                for dv in (rr, rr + 1):
                    if dv < len(alpha):
                        strs.append(t[:1] + alpha[dv] + t[1:])
                        strs.append(alpha[dv])
                strs.append(t + " ")
                strs.append(t[:1] + "é" + t[1:])
                strs.append("é" + t)
                strs.append("0é" + t)
                strs.append(t + "=\r\n")
                strs.append("+" + t)
                strs.append("-" + t)
            strs += ["", "_", "z", "Z", "zz", "az09AZ", "+/", "-_", ",", "=", "g", "G"]
            # the whole ASCII table (control characters included) and a few digit look-alikes, alone and inside a numeral: the
            # alphabet must be EXACTLY the documented one (a case fold by `| 0x20` would map U+0010..U+0019 onto '0'..'9')
            if bits in (8, 64, 256) and r in (10, 16, 36, 64, 2):
                for cp in list(range(0, 128)) + [0x80, 0xb2, 0xb9, 0x660, 0x6f0, 0x966, 0xff10, 0xff21, 0x1d7ce]:
                    strs += [chr(cp), "1" + chr(cp) + "0"]
            for s in dict.fromkeys(strs):
                sc.append({"g": "text", "op": "parse", "bits": bits, "s": [ord(c) for c in s], "radix": tobytes(r)})
    return {"ux_text": sc}
