"""C05 shifts and rotations."""
from ..vlib import WIDTHS, tobytes, values, nlimbs, boundary_values, rand_value

BINS = ["ux_bits"]
RULE = ("all values x all shift amounts 0..BITS+66 at BITS<=6 (exhaustive); at widths <=257 value classes "
        "{0,1,MAX,2^(BITS-1), single bits at limb boundaries +-1, one all-ones limb, alternating, random} x ALL "
        "amounts in [0, BITS+64*LIMBS+1]; at larger widths boundary amounts {0,1,63,64,65,BITS-1,BITS,BITS+1,"
        "64*LIMBS-1,64*LIMBS,64*LIMBS+1,2^32,2^63,usize::MAX}; methods, rotations, arithmetic shift, the "
        "<< >> <<= >>= overloads for usize,u8..u64,i8..i64 (value, reference, assign) and Uint-typed amounts "
        "incl. >= 2^64; a case is one distinct (width, value, amount)")


def shift_values(bits, rng, nrand):
    if bits == 0:
        return [0]
    m = (1 << bits) - 1
    L = nlimbs(bits)
    vs = {0, 1, m, 1 << (bits - 1), m >> 1, int("55" * ((bits + 7) // 8), 16) & m, int("aa" * ((bits + 7) // 8), 16) & m}
    for lb in range(64, bits + 64, 64):
        for k in (lb - 1, lb, lb + 1):
            if 0 <= k < bits:
                vs.add(1 << k)
    for i in range(L):
        vs.add(((2**64 - 1) << (64 * i)) & m)
    for _ in range(nrand):
        vs.add(rand_value(rng, bits))
    return sorted(vs)


def scenarios(tier, rng):
    quick = tier == "quick"
    sc = []
    for bits in WIDTHS:
        L = nlimbs(bits)
        if bits <= 6:
            vs = list(range(1 << bits))
            amts = list(range(0, bits + 67))
        elif bits <= 257:
            vs = shift_values(bits, rng, 2 if quick else 10)
            if quick and len(vs) > 12:
                keep = vs[:3] + vs[-3:]
                vs = keep + rng.sample(vs[3:-3], 6)
            amts = list(range(0, bits + 64 * L + 2))
            if quick and bits > 72:
                # quick tier: every amount near a limb boundary, a stride elsewhere
                near = {s for s in amts if s % 64 in (0, 1, 2, 31, 32, 62, 63) or abs(s - bits) <= 2}
                amts = sorted(near | set(amts[:: 5]))
        else:
            vs = shift_values(bits, rng, 2 if quick else 8)
            if len(vs) > (8 if quick else 30):
                vs = vs[:3] + vs[-2:] + rng.sample(vs[3:-2], 3 if quick else 25)
            amts = sorted({0, 1, 7, 8, 63, 64, 65, 127, 128, bits // 2, bits - 65, bits - 64, bits - 63, bits - 1,
                           bits, bits + 1, 64 * L - 1, 64 * L, 64 * L + 1} | {rng.randrange(0, bits) for _ in range(6 if quick else 40)})
        big = [2**31, 2**32, 2**32 + 1, 2**63, 2**64 - 1]
        for a in vs:
            for s in amts + (big if a in vs[:4] or not quick else []):
                d = {"g": "bits", "op": "shift", "bits": bits, "a": tobytes(a), "s": tobytes(s)}
                if bits <= 129 or (s % 7 == 0 and a in vs[:5]) or s >= 2**31:
                    d["ty"] = 1
                sc.append(d)
        # Uint-typed amounts of any magnitude
        m = (1 << bits) - 1
        uam = {0, 1, 2, 63, 64, 65, bits - 1, bits, bits + 1, m, m - 1, 2**64, 2**64 + 1, 2**64 + bits - 1,
               2**65, 2**128, 2**128 + 3, (1 << bits) >> 1}
        uam = sorted(s for s in uam if 0 <= s <= m)
        for a in (vs if len(vs) <= 10 else vs[:4] + vs[-3:] + [rng.choice(vs) for _ in range(3)]):
            for s in uam:
                sc.append({"g": "bits", "op": "shiftu", "bits": bits, "a": tobytes(a), "s": tobytes(s)})
    return {"ux_bits": sc}
