"""C15 limb-slice multiply / add / shift / compare kernels."""
import itertools

from ..vlib import tobytes, LIMB_ALPHABET
from .C14 import slice_bytes, rand_limbs

BINS = ["ux_kern"]
RULE = ("addmul: complete product of lengths (acc,a,b) in 0..3 x limb alphabet {0,1,2^64-1} (sampled in quick), then "
        "lengths 0..10 independently with zero-position masks (zero limbs at the low end, high end, middle, all) x "
        "non-zero limbs in {1, all-ones, random}, accumulators shorter than / equal to / longer than the product, "
        "pre-filled with all-ones or zero; addmul_n on equal and unequal lengths; the nx1 family, adc_n, sbb_n, cmp "
        "on equal-length slices 0..10; single-word primitives over the 6-value limb alphabet cubed; shifts by every "
        "amount 0..63 x limb classes; a case is one distinct call")
B = 1 << 64


def masked_operand(rng, n):
    """operand of n limbs with a zero-position mask"""
    kind = rng.randrange(6)
    limbs = []
    for i in range(n):
        x = rng.choice([1, B - 1, rng.getrandbits(64) | 1])
        limbs.append(x)
    if n:
        if kind == 0:
            for i in range(rng.randrange(0, n + 1)):
                limbs[i] = 0                         # zero low limbs
        elif kind == 1:
            for i in range(rng.randrange(0, n + 1)):
                limbs[n - 1 - i] = 0                 # zero high limbs
        elif kind == 2 and n >= 3:
            for i in range(1, n - 1):
                if rng.random() < 0.7:
                    limbs[i] = 0                     # zero middle limbs
        elif kind == 3:
            limbs = [0] * n
    return sum(x << (64 * i) for i, x in enumerate(limbs))


def scenarios(tier, rng):
    quick = tier == "quick"
    sc = []
    alpha = [0, 1, B - 1]
    for la in range(0, 4):
        for lb in range(0, 4):
            for lc in range(0, 4):
                combos = list(itertools.product(itertools.product(alpha, repeat=lc), itertools.product(alpha, repeat=la),
                                                itertools.product(alpha, repeat=lb)))
                if quick and len(combos) > 40:
                    combos = rng.sample(combos, 40)
                elif len(combos) > 600:
                    combos = rng.sample(combos, 600)
                for acc, a, b in combos:
                    f = lambda t: sum(x << (64 * i) for i, x in enumerate(t))
                    sc.append({"g": "kern", "op": "kaddmul", "acc": slice_bytes(f(acc), lc), "a": slice_bytes(f(a), la),
                               "b": slice_bytes(f(b), lb)})
    reps = 2 if quick else 10
    for la in range(0, 11):
        for lb in range(0, 11):
            for lc in sorted({0, 1, max(la + lb - 2, 0), max(la + lb - 1, 0), la + lb, la + lb + 1, min(la, lb), max(la, lb), 10}):
                if lc > 21:
                    continue
                for _ in range(reps if (la + lb) % 2 == 0 or not quick else 1):
                    a, b = masked_operand(rng, la), masked_operand(rng, lb)
                    acc = rng.choice([0, (1 << (64 * lc)) - 1, rand_limbs(rng, lc, False) if lc else 0])
                    sc.append({"g": "kern", "op": "kaddmul", "acc": slice_bytes(acc, lc), "a": slice_bytes(a, la),
                               "b": slice_bytes(b, lb)})
    # equal-length family
    for n in range(0, 11):
        for _ in range(12 if quick else 80):
            acc = rng.choice([0, (1 << (64 * n)) - 1, masked_operand(rng, n), rand_limbs(rng, n, False) if n else 0])
            a = rng.choice([0, (1 << (64 * n)) - 1, masked_operand(rng, n), acc, max(acc - 1, 0), min(acc + 1, (1 << (64 * n)) - 1 if n else 0)])
            b = rng.choice(LIMB_ALPHABET + [rng.getrandbits(64)])
            sc.append({"g": "kern", "op": "knx1", "acc": slice_bytes(acc, n), "a": slice_bytes(a, n), "b": tobytes(b)})
            sc.append({"g": "kern", "op": "kaddmul", "acc": slice_bytes(acc, n), "a": slice_bytes(a, n), "b": slice_bytes(masked_operand(rng, n), n)})
    for x, y, c in itertools.product(LIMB_ALPHABET, repeat=3):
        sc.append({"g": "kern", "op": "kword", "x": tobytes(x), "y": tobytes(y), "c": tobytes(c)})
    for _ in range(50 if quick else 1000):
        sc.append({"g": "kern", "op": "kword", "x": tobytes(rng.getrandbits(64)), "y": tobytes(rng.getrandbits(64)),
                   "c": tobytes(rng.choice([0, 1, rng.getrandbits(64)]))})
    for n in range(0, 6 if quick else 11):
        for s in range(0, 64):
            for x in {0, (1 << (64 * n)) - 1, masked_operand(rng, n), rand_limbs(rng, n, False) if n else 0}:
                sc.append({"g": "kern", "op": "kshift", "x": slice_bytes(x, n), "s": s})
    return {"ux_kern": sc}
