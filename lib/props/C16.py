"""C16 codecs round-trip and emit the reference encoding."""
from ..vlib import WIDTHS, tobytes, values, nlimbs, rand_value

BINS = ["ux_codec"]
# upper bounds / capacity hints / float columns are not pinned to one value by the contract
PIPE = {"neg_skip": ("alloy_max", "f3_max", "f4_max", "scale_hint", "scale_max", "compact_hint", "pg_float4", "pg_float8")}
RULE = ("every integration (alloy-rlp, fastrlp 0.3/0.4, rlp incl. Bits, SCALE fixed + compact, SSZ, borsh incl. Bits, DER incl. "
        "Any/Int/Uint, serde JSON + bincode incl. Bits, num-bigint, ark-ff 0.3/0.4 BigInt and BN254 fields, primitive-types, "
        "bytemuck, 17 postgres column types) x every compiled width x values at each format's mode boundaries (0,1,0x7f,"
        "0x80,0xff,2^6-1,2^6,2^14-1,2^14,2^30-1,2^30,2^(8k)-1,2^(8k) for every k<=BYTES, 55/56-byte payloads, 2^535, MAX, "
        "small values in wide types, random); bytes, every advertised length, and the decode of the bytes are validated; the "
        "codec crates' own u64/u128 encodings are validated by the same TLA+ encoders; a case is one distinct (width, value)")

FIXED_WIDTHS = [64, 128, 160, 192, 256, 320, 384, 448, 512, 576, 1024]
BN254R = 21888242871839275222246405745257275088548364400416034343698204186575808495617
BN254Q = 21888242871839275222246405745257275088696311157297823662689037894645226208583


def boundary(bits, rng, nrand):
    mx = (1 << bits) - 1
    vs = {0, 1, 2, 0x7f, 0x80, 0xff, 0x100, 63, 64, (1 << 14) - 1, 1 << 14, (1 << 30) - 1, 1 << 30, (1 << 31) - 1, 1 << 31,
          (1 << 15) - 1, 1 << 15, (1 << 32) - 1, 1 << 32, (1 << 63) - 1, 1 << 63, (1 << 64) - 1, 1 << 64, 9999, 10000, 10**8 - 1, 10**8,
          (1 << 63) // 100, (1 << 63) // 100 + 1, (1 << 63) // 100 - 1, (1 << 63) // 100 + 2, (1 << 56) - 1, 1 << 56, (1 << 57) - 1, 1 << 57, (1 << 57) + 1,
          ((1 << 63) // 100 + (1 << 57)) // 2, (1 << 31) // 100, (1 << 31) // 100 + 1, (1 << 64) // 100, (1 << 64) // 100 + 1, mx, mx - 1, mx >> 1, (mx >> 1) + 1, 1 << 535, (1 << 440) - 1, 1 << 440, (1 << 448) - 1}
    for k in range(1, (bits + 7) // 8 + 1):
        if bits <= 576 or k % 16 in (0, 1) or k > (bits + 7) // 8 - 2:
            vs.update({(1 << (8 * k)) - 1, 1 << (8 * k), 1 << (8 * k - 1), (1 << (8 * k - 1)) - 1})
    for _ in range(nrand):
        vs.add(rand_value(rng, bits))
        vs.add(rng.getrandbits(rng.randrange(1, bits + 1)) if bits else 0)
    return sorted(v for v in vs if 0 <= v <= mx)


def scenarios(tier, rng):
    quick = tier == "quick"
    sc = []
    for bits in WIDTHS:
        vs = boundary(bits, rng, 3 if quick else 40)
        if quick and len(vs) > 40:
            keep = [v for v in vs if v < 300 or v > (1 << bits) - 3]
            vs = keep + rng.sample([v for v in vs if v not in keep], 40 - min(40, len(keep)))
        if bits > 1100:
            vs = vs[:3] + vs[-2:] + rng.sample(vs, 1 if quick else 12)
        elif bits > 576 and quick:
            vs = vs[:5] + vs[-3:] + rng.sample(vs, 4)
        for a in dict.fromkeys(vs):
            sc.append({"g": "codec", "op": "enc", "bits": bits, "a": tobytes(a)})
    for a in boundary(128, rng, 10 if quick else 200):
        sc.append({"g": "codec", "op": "ref", "a": tobytes(a)})
    for bits in FIXED_WIDTHS:
        vs = boundary(bits, rng, 3 if quick else 30)
        if bits == 256:
            vs += [BN254R - 1, BN254R, BN254R + 1, BN254Q - 1, BN254Q, BN254Q + 1]
        if quick and len(vs) > 30:
            vs = vs[:8] + vs[-8:] + rng.sample(vs, 14)
        for a in dict.fromkeys(vs):
            sc.append({"g": "codec", "op": "fixed", "bits": bits, "a": tobytes(a)})
    return {"ux_codec": sc}
