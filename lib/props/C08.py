"""C08 byte encodings: positional, round-trip, range-checked without panicking."""
from ..vlib import WIDTHS, tobytes, values, nlimbs, boundary_values, rand_value

BINS = ["ux_bytes"]
RULE = ("encoding: boundary and random values at every compiled width (all values at BITS<=6) through all 9 "
        "encoders and 6 round trips; copy forms with buffer lengths 0..BYTES+2; decoding: all byte strings of length "
        "<=2 at BITS<=16, and for every width every length 0..BYTES+8 x content classes {all 00, all FF, 01 then "
        "zeros, zeros then 80, valid value, valid value with each excess high bit set, full-length >= 2^BITS, random}, "
        "both endiannesses (each string is decoded as BE and as LE); a case is one distinct (width, value | string)")


def scenarios(tier, rng):
    quick = tier == "quick"
    sc = []
    for bits in WIDTHS:
        nb = (bits + 7) // 8
        m = (1 << bits) - 1
        vs = list(range(1 << bits)) if bits <= 6 else values(bits, rng, 6 if quick else 60)
        if bits > 1100 and quick:
            vs = vs[:4] + vs[-4:] + rng.sample(vs, 6)
        for a in vs:
            sc.append({"g": "bytes", "op": "enc", "bits": bits, "a": tobytes(a)})
        for a in (vs if len(vs) <= 6 else [0, m, rng.choice(vs), rng.choice(vs)]):
            for ln in sorted({0, 1, nb - 1, nb, nb + 1, nb + 2, max(nb - 8, 0), nb + 9} - {-1}):
                if bits > 1100 and ln not in (nb - 1, nb, nb + 1):
                    continue
                sc.append({"g": "bytes", "op": "copy", "bits": bits, "a": tobytes(a), "len": ln,
                           "pat": [(i * 7 + 0xa3) % 256 for i in range(ln)]})
        # decoding
        strings = []
        if bits <= 16:
            strings += [[x] for x in range(256)]
            step = (1 if bits in (7, 8, 9, 16) else 3) if not quick else 5
            strings += [[x, y] for x in range(0, 256, step) for y in range(0, 256, step)]
            strings += [[x, 255] for x in range(256)] + [[255, x] for x in range(256)]
        lens = range(0, nb + 9) if bits <= 576 else sorted({0, 1, 8, nb - 8, nb - 1, nb, nb + 1, nb + 8})
        for ln in lens:
            if ln == 0:
                strings.append([])
                continue
            strings.append([0] * ln)
            strings.append([255] * ln)
            strings.append([1] + [0] * (ln - 1))
            strings.append([0] * (ln - 1) + [0x80])
            strings.append([0] * (ln - 1) + [1])
            strings.append([0x80] + [0] * (ln - 1))
            for _ in range(1 if quick else 4):
                strings.append([rng.getrandbits(8) for _ in range(ln)])
        # valid values, and the same with each excess high bit set (up to the next byte / limb boundary)
        for v in ([m, m >> 1, 1, rand_value(rng, bits)] if bits else [0]):
            for endian in ("le", "be"):
                for ln in sorted({nb, nb + 1, 8 * nlimbs(bits)}):
                    b = list(v.to_bytes(max(ln, 1) if v else ln, "little"))[:ln] if ln >= (v.bit_length() + 7) // 8 else None
                    if b is None:
                        continue
                    strings.append(b if endian == "le" else b[::-1])
                    for k in range(bits, min(8 * ln, bits + 70)):
                        w = v | (1 << k)
                        bb = list(w.to_bytes(ln, "little"))
                        strings.append(bb if endian == "le" else bb[::-1])
        seen = set()
        for s in strings:
            t = tuple(s)
            if t in seen:
                continue
            seen.add(t)
            sc.append({"g": "bytes", "op": "dec", "bits": bits, "x": s})
    return {"ux_bytes": sc}
