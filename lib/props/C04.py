"""C04 canonical values; Eq/Hash/Ord follow the number; ill-formed Uint types are uninhabited.

Four bindings:
 (B1) TLC model-checks spec/UintMachine.tla exhaustively at tiny widths (invariants Canonical and NativeOK) and every
      transition is replayed on the real code;
 (B2) TLC -simulate produces histories at non-aligned real widths; the real register file is stepped and compared;
 (B3) comparison / generator / limb-constructor events validated by trace validation;
 (P)  one-line probe programs for ill-formed (BITS, LIMBS) pairs, judged by WellFormed in spec/UintCanon.tla.
"""
import json
import os
import random
import re
import shutil
import subprocess
import time
import zlib
from concurrent.futures import ThreadPoolExecutor

from .. import vlib, runner
from ..vlib import tobytes, ToolError, WIDTHS, pairs, boundary_values, rand_value, nlimbs, limb_pattern_pairs
from . import C07

RULE = ("(B1) every transition of UintMachine (101 operations x all register values x all immediates) at widths 0..3 (quick) / "
        "0..5 (thorough), invariants Canonical + NativeOK, each transition replayed on the real Uint; (B2) simulated histories "
        "(depth 25, 4 registers) at widths {1,7,60,63,64,65,100,127,129,250,255,257}, register file compared after every step, plus a second batch restricted to the masking-sensitive operations at the "
        "non-aligned widths; (B4) histories drawn by the executor's own driver (any shift amount / bit index) at 16 widths, every logged "
        "step validated by TLC against UintMachine!Apply (MachineTrace.tla); "
        "(B3) ==,!=,<,<=,>,>=,cmp,partial_cmp,min,max,is_zero,hash on all pairs at BITS<=6 and boundary pairs differing in one limb, "
        "rand 0.8/0.9, arbitrary, quickcheck, proptest (incl. shrinking) generators, all limb-slice constructors with out-of-range "
        "limbs; (P) 7 ill-formed + 5 well-formed (BITS,LIMBS) pairs x 33 constants/constructors as compiled probe programs; a case "
        "is one distinct transition / history / event / probe")

ILL = [(64, 2), (65, 1), (0, 1), (1, 0), (128, 1), (63, 2), (129, 2)]
WELL = [(0, 0), (1, 1), (64, 1), (65, 2), (129, 3)]

CTORS = {
    "ZERO": "U::ZERO", "ONE": "U::ONE", "MIN": "U::MIN", "MAX": "U::MAX", "default": "U::default()",
    "from_u64": "U::from(0u64)", "try_from_u64": "U::try_from(0u64).unwrap()", "wrapping_from": "U::wrapping_from(0u64)",
    "saturating_from": "U::saturating_from(0u64)", "from_bool": "U::from(false)", "try_from_i128": "U::try_from(0i128).unwrap()",
    "from_f64": "U::from(0.0f64)",
    "from_limbs": "U::from_limbs([0u64; {L}])", "from_limbs_slice": "U::from_limbs_slice(&[])",
    "checked_from_limbs_slice": "U::checked_from_limbs_slice(&[]).unwrap()", "wrapping_from_limbs_slice": "U::wrapping_from_limbs_slice(&[])",
    "overflowing_from_limbs_slice": "U::overflowing_from_limbs_slice(&[]).0", "saturating_from_limbs_slice": "U::saturating_from_limbs_slice(&[])",
    "from_be_slice": "U::from_be_slice(&[])", "from_le_slice": "U::from_le_slice(&[])",
    "try_from_be_slice": "U::try_from_be_slice(&[]).unwrap()", "try_from_le_slice": "U::try_from_le_slice(&[]).unwrap()",
    "from_be_bytes": "U::from_be_bytes([0u8; {N}])", "from_le_bytes": "U::from_le_bytes([0u8; {N}])",
    "from_str_radix": 'U::from_str_radix("0", 10).unwrap()', "from_str": '"0".parse::<U>().unwrap()',
    "from_base_le": "U::from_base_le(10, [0u64]).unwrap()", "from_base_be": "U::from_base_be(10, [0u64]).unwrap()",
    "from_uint": "U::from(ruint::Uint::<64, 1>::ZERO)", "bits_zero": "ruint::Bits::<{B}, {L}>::ZERO.into_inner()",
    "bits_default": "ruint::Bits::<{B}, {L}>::default().into_inner()",
    "random_with": "{ use rand09::SeedableRng; let mut r = rand09::rngs::StdRng::seed_from_u64(1); U::random_with(&mut r) }",
    "rand08": "{ use rand08::{Rng, SeedableRng}; let mut r = rand08::rngs::StdRng::seed_from_u64(1); r.gen::<U>() }",
    "arbitrary": "{ use arbitrary::Arbitrary; let mut u = arbitrary::Unstructured::new(&[0u8; 64]); U::arbitrary(&mut u).unwrap() }",
    "quickcheck": "{ let mut g = quickcheck::Gen::new(8); <U as quickcheck::Arbitrary>::arbitrary(&mut g) }",
}


def tlc_machine(cfg, workdir, simulate=None, seed=0, timeout=1500):
    log = os.path.join(workdir, f"machine_{cfg}.log")
    meta = os.path.join(workdir, f"meta_{cfg}")
    extra = []
    workers = 14
    if simulate:
        extra = ["-simulate", f"num={simulate}", "-depth", "40", "-seed", str(seed + 1)]
        workers = 1
    cmd = vlib.tlc_cmd("UintMachine.tla", f"{cfg}.cfg", meta, workers=workers, extra=extra, xmx="8g", gc="-XX:+UseParallelGC")
    with open(log, "w") as fh:
        r = subprocess.run(cmd, cwd=vlib.SPEC, stdout=fh, stderr=subprocess.STDOUT, timeout=timeout)
    out = open(log).read()
    if simulate is None and "No error has been found" not in out:
        tail = "\n".join([l for l in out.split("\n") if not l.startswith('<<"')][-40:])
        if "Invariant" in out and "is violated" in out:
            raise ToolError("the specification's own invariant is violated (specification error): " + tail[-1500:])
        raise ToolError("TLC failed on UintMachine: " + tail[-1500:])
    if simulate is not None and ("Error:" in out and "is violated" in out):
        raise ToolError("UintMachine invariant violated in simulation (specification error)")
    recs = []
    for m in re.finditer(r'^<<"([TH])", (".*")>>$', out, re.M):
        recs.append((m.group(1), json.loads(json.loads(m.group(2)))))
    return recs, vlib.parse_tlc_stats(out)


def ctor_probes(workdir, quick):
    """compile and run one probe program per (pair, constructor); returns events"""
    env = dict(os.environ, CARGO_NET_OFFLINE="true", RUST_BACKTRACE="0")
    r = subprocess.run(["cargo", "build", "--offline", "--message-format=json", "--bin", "ux_fac"], cwd=vlib.HARNESS, env=env,
                       capture_output=True, text=True)
    ext = {}
    for line in r.stdout.split("\n"):
        if not line.startswith("{"):
            continue
        m = json.loads(line)
        if m.get("reason") != "compiler-artifact":
            continue
        name = m["target"]["name"]
        pid = m.get("package_id", "")
        rl = [f for f in m.get("filenames", []) if f.endswith(".rlib")]
        if not rl:
            continue
        if name == "ruint":
            ext["ruint"] = rl[0]
        elif name == "rand" and "@0.9" in pid:
            ext["rand09"] = rl[0]
        elif name == "rand" and "@0.8" in pid:
            ext["rand08"] = rl[0]
        elif name in ("arbitrary", "quickcheck", "bytemuck"):
            ext[name] = rl[0]
    if "ruint" not in ext:
        raise ToolError("could not locate the ruint rlib for the constructor probes")
    deps = os.path.join(vlib.HARNESS, "target", "debug", "deps")
    pdir = os.path.join(workdir, "ctor_probes")
    os.makedirs(pdir, exist_ok=True)
    jobs = []
    prs = ILL + WELL
    names = sorted(CTORS)
    for (b, l) in prs:
        for name in names:
            if quick and (b, l) in ILL[3:] and zlib.crc32(f"{b},{l},{name}".encode()) % 3:      # deterministic (hash() is salted per process)
                continue
            expr = CTORS[name].replace("{B}", str(b)).replace("{L}", str(l)).replace("{N}", str((b + 7) // 8))
            src = ("#![allow(unused, deprecated)]\nuse std::str::FromStr;\ntype U = ruint::Uint<%d, %d>;\n"
                   "fn main() {\n    std::panic::set_hook(Box::new(|_| {}));\n"
                   "    let r = std::panic::catch_unwind(|| { let x: U = %s; format!(\"{:?}\", x.as_limbs()) });\n"
                   "    match r { Ok(s) => println!(\"obtained {s}\"), Err(_) => println!(\"panic\") }\n}\n") % (b, l, expr)
            jobs.append((b, l, name, src))

    # reinterpreting bytes as a Uint through bytemuck is a SAFE way to obtain a value: it may exist only for widths that have no
    # unused bits (every bit pattern canonical).  One probe per width: all-ones bytes read as Uint<b, l> via pod_read_unaligned.
    if "bytemuck" in ext:
        for (b, l) in [(64, 1), (128, 2), (256, 4), (1, 1), (8, 1), (63, 1), (65, 2), (100, 2), (127, 2), (255, 4), (257, 5), (0, 0)]:
            src = ("#![allow(unused)]\ntype U = ruint::Uint<%d, %d>;\n"
                   "fn main() {\n    std::panic::set_hook(Box::new(|_| {}));\n"
                   "    let r = std::panic::catch_unwind(|| { let x: U = bytemuck::pod_read_unaligned(&[0xffu8; %d]); format!(\"{:?}\", x.as_limbs()) });\n"
                   "    match r { Ok(s) => println!(\"obtained {s}\"), Err(_) => println!(\"panic\") }\n}\n") % (b, l, 8 * l)
            jobs.append((b, l, "pod_read", src))

    def one(job):
        b, l, name, src = job
        base = os.path.join(pdir, f"p_{b}_{l}_{name}")
        with open(base + ".rs", "w") as fh:
            fh.write(src)
        cmd = ["rustc", "--edition", "2021", "-L", f"dependency={deps}", "-C", "debuginfo=0", "-o", base, base + ".rs"]
        for k, v in ext.items():
            cmd += ["--extern", f"{k}={v}"]
        c = subprocess.run(cmd, capture_output=True, text=True, env=env)
        if c.returncode != 0:
            kind = "compile_error"
            # only errors about the type itself count; anything else (our probe is wrong) is a tool error
            if name == "pod_read" and "E0277" in c.stderr:
                return (b, l, name, kind, "")           # the Pod bound is not satisfied: the expected outcome for widths with unused bits
            if "evaluation of" not in c.stderr and "E0080" not in c.stderr and "panicked" not in c.stderr:
                return (b, l, name, "tool_error", c.stderr[-400:])
            return (b, l, name, kind, "")
        try:
            x = subprocess.run([base], capture_output=True, text=True, timeout=60)
        except subprocess.TimeoutExpired:
            return (b, l, name, "hang", "")      # not "obtained": a mismatch for a well-formed type, allowed for an ill-formed one
        os.remove(base)
        out = x.stdout.strip()
        if x.returncode != 0 and not out:
            return (b, l, name, "panic", "")
        return (b, l, name, "obtained" if out.startswith("obtained") else "panic", out[:80])

    with ThreadPoolExecutor(max_workers=vlib.NCPU) as ex:
        results = list(ex.map(one, jobs))
    events = []
    for b, l, name, outcome, detail in results:
        if outcome == "tool_error":
            raise ToolError(f"constructor probe {name} for Uint<{b},{l}> failed to build for an unrelated reason: {detail}")
        scn = {"g": "canon", "op": "pod_probe" if name == "pod_read" else "ctor_probe", "bits": b, "limbs": l, "ctor": name}
        events.append((dict(scn, outcome=outcome, detail=detail, st="ok", pan=[]), set(scn.keys())))
    return events


ALT_WIDTHS = [(0, 0), (1, 1), (7, 1), (63, 1), (64, 1), (65, 2), (100, 2), (127, 2), (128, 2), (129, 3), (255, 4), (256, 4), (257, 5), (521, 9)]


def alt_config_probes(workdir, quick):
    """The inherent methods random / random_with / randomize / randomize_with of the rand-0.8 integration exist only when the
    feature `rand-09` is OFF (cfg(not(feature = "rand-09"))) - a configuration the main harness, which enables every feature,
    never compiles.  A second, small crate is built from the working tree with the feature `rand` alone; it prints the raw
    limbs of what these methods yield, which become `gen08` events."""
    d = os.path.join(workdir, "alt_rand08")
    os.makedirs(os.path.join(d, "src"), exist_ok=True)
    with open(os.path.join(d, "Cargo.toml"), "w") as fh:
        fh.write('[package]\nname = "altrand08"\nversion = "0.0.0"\nedition = "2021"\n\n[workspace]\n\n[dependencies]\n'
                 f'ruint = {{ path = "{vlib.REPO}", features = ["rand"] }}\nrand = "0.8"\n\n[profile.dev]\nopt-level = 1\ndebug = false\n')
    os.makedirs(os.path.join(d, ".cargo"), exist_ok=True)
    with open(os.path.join(d, ".cargo", "config.toml"), "w") as fh:
        fh.write('[net]\noffline = true\n[build]\ntarget-dir = "target"\n')
    shutil.copy(os.path.join(vlib.REPO, "Cargo.lock"), os.path.join(d, "Cargo.lock"))
    k = 6 if quick else 40
    calls = "\n".join(f"    run::<{b}, {l}>({k});" for b, l in ALT_WIDTHS)
    with open(os.path.join(d, "src", "main.rs"), "w") as fh:
        fh.write("""use rand::{Rng, SeedableRng};
use ruint::Uint;
fn show<const B: usize, const L: usize>(seed: u64, field: &str, f: impl FnOnce() -> Vec<Uint<B, L>> + std::panic::UnwindSafe) {
    match std::panic::catch_unwind(f) {
        Ok(v) => println!("{} {} {} {}", B, seed, field, v.iter().map(|x| x.as_limbs().iter().map(|l| l.to_string()).collect::<Vec<_>>().join(",")).collect::<Vec<_>>().join(";")),
        Err(_) => println!("{} {} {} PANIC", B, seed, field),
    }
}
fn run<const B: usize, const L: usize>(k: usize) {
    for seed in [1u64, 7919 + B as u64, 0xffff_ffff_ffff_fff1] {
        show::<B, L>(seed, "r8o_with", move || { let mut r = rand::rngs::StdRng::seed_from_u64(seed); (0..k).map(|_| Uint::<B, L>::random_with(&mut r)).collect() });
        show::<B, L>(seed, "r8o_rize_max", move || { let mut r = rand::rngs::StdRng::seed_from_u64(seed); (0..k).map(|_| { let mut x = Uint::<B, L>::MAX; x.randomize_with(&mut r); x }).collect() });
        show::<B, L>(seed, "r8o_rize_zero", move || { let mut r = rand::rngs::StdRng::seed_from_u64(seed); (0..k).map(|_| { let mut x = Uint::<B, L>::ZERO; x.randomize_with(&mut r); x }).collect() });
        show::<B, L>(seed, "r8o_gen", move || { let mut r = rand::rngs::StdRng::seed_from_u64(seed); (0..k).map(|_| r.gen::<Uint<B, L>>()).collect() });
        show::<B, L>(seed, "r8o_thread", move || (0..k).map(|_| Uint::<B, L>::random()).collect());
        show::<B, L>(seed, "r8o_rize_thread", move || (0..k).map(|_| { let mut x = Uint::<B, L>::MAX; x.randomize(); x }).collect());
    }
}
fn main() {
    std::panic::set_hook(Box::new(|_| {}));
""" + calls + "\n}\n")
    env = dict(os.environ, CARGO_NET_OFFLINE="true", RUST_BACKTRACE="0")
    try:
        c = subprocess.run(["cargo", "build", "--offline"], cwd=d, env=env, capture_output=True, text=True, timeout=1500)
    except subprocess.TimeoutExpired:
        raise ToolError("the rand-0.8-only probe crate did not build within 25 min")
    if c.returncode != 0:
        raise ToolError("the rand-0.8-only probe crate failed to build: " + c.stderr[-600:])
    try:
        x = subprocess.run([os.path.join(d, "target", "debug", "altrand08")], capture_output=True, text=True, timeout=300)
    except subprocess.TimeoutExpired:
        x = None
    evs = {}
    for line in (x.stdout.split("\n") if x else []):
        parts = line.split(" ")
        if len(parts) != 4:
            continue
        b, sd, field, val = int(parts[0]), int(parts[1]), parts[2], parts[3]
        ev = evs.setdefault((b, sd), {"g": "canon", "op": "gen08", "bits": b, "seed": [sd & 0xff, sd >> 8 & 0xff], "k": k, "st": "ok", "pan": []})
        if val == "PANIC":
            ev["pan"].append(field)
        else:
            vals = []
            for item in (val.split(";") if val else []):
                limbs = [int(t) for t in item.split(",")] if item else []
                by = [(l >> (8 * i)) & 0xff for l in limbs for i in range(8)]
                while by and by[-1] == 0:
                    by.pop()
                vals.append(by)
            ev[field] = vals
    # a run that hangs or dies leaves events without their fields: Has(e, f) fails for them, which is the observation
    for b, _ in ALT_WIDTHS:
        for sd in (1, 7919 + b, 0xfffffffffffffff1):
            evs.setdefault((b, sd), {"g": "canon", "op": "gen08", "bits": b, "seed": [sd & 0xff, sd >> 8 & 0xff], "k": k, "st": "ok", "pan": []})
    keys = {"g", "op", "bits", "seed", "k"}
    return [(ev, keys) for _, ev in sorted(evs.items())]


def event_scenarios(tier, rng):
    quick = tier == "quick"
    bitsg, fac = [], []
    for bits in WIDTHS:
        mx = (1 << bits) - 1
        if bits <= 6:
            ps = pairs(bits, rng, 0)
        else:
            bv = boundary_values(bits)
            ps = []
            L = nlimbs(bits)
            # pairs that differ in exactly one limb (most-significant-first comparison order)
            for _ in range(20 if quick else 200):
                a = rand_value(rng, bits)
                i = rng.randrange(L)
                b = (a ^ (rng.getrandbits(64) << (64 * i))) & mx
                ps += [(a, b), (b, a), (a, a)]
            ps += [(rng.choice(bv), rng.choice(bv)) for _ in range(20 if quick else 200)]
            ps += [(0, mx), (mx, 0), (mx, mx), (0, 0), (mx - 1, mx), (1, 1 << (bits - 1))]
            ps += limb_pattern_pairs(bits, rng, 27 if quick else 150)
            if bits > 1100:
                ps = ps[:20]
        for a, b in dict.fromkeys(ps):
            bitsg.append({"g": "bits", "op": "cmp", "bits": bits, "a": tobytes(a), "b": tobytes(b)})
        pools = [[0xff] * (8 * nlimbs(bits) * 6 + 8), [0] * 64, [rng.getrandbits(8) for _ in range(8 * nlimbs(bits) * 6 + 8)]]
        for sd, pool in enumerate(pools):
            fac.append({"g": "canon", "op": "gen", "bits": bits, "seed": sd * 7919 + bits, "k": 4 if bits > 1100 else (6 if quick else 24),
                        "pool": pool, "a": tobytes(mx)})
    conv = [s for s in C07.scenarios("quick", rng)["ux_conv"] if s["op"] in ("limbs", "consts")]
    return {"ux_bits": bitsg, "ux_fac": fac, "ux_conv": conv}


DRIVE_WIDTHS = [1, 7, 60, 63, 64, 65, 100, 127, 128, 129, 192, 250, 255, 256, 257, 512]


def driver_histories(scens, workdir, res, tag="drv"):
    """(B4) implementation -> specification for the machine: the executor's own driver chooses the histories, TLC validates
    the logged steps against UintMachine!Apply (spec/MachineTrace.tla, mismatch-tolerant).  Returns (steps, histories,
    negative controls injected, rejected)."""
    sp, ep = os.path.join(workdir, f"{tag}_scen.ndjson"), os.path.join(workdir, f"{tag}_ev.ndjson")
    with open(sp, "w") as fh:
        for sc in scens:
            fh.write(json.dumps(sc, separators=(",", ":")) + "\n")
    xst = vlib.execute("ux_mach", sp, ep, hang_secs=120)
    res.hangs += xst["hangs"]
    res.crashes += xst["crashes"]
    hists = []
    with open(ep) as fh:
        for sc, line in zip(scens, fh):
            ev = json.loads(line)
            if ev.get("st") != "ok" or "hist" not in ev:
                res.violations.append((dict(sc, op="driver", st=ev.get("st")), ["driver"], sorted(sc.keys())))
                continue
            hists.append((sc, ev["hist"]))
    # negative controls: a copy of some histories with one register byte of one step corrupted must be reported
    negs = []
    for k, (sc, h) in enumerate(hists):
        if k % 4 == 0 and len(h["steps"]) > 3:
            hh = json.loads(json.dumps(h))
            j = 1 + (k * 7) % (len(hh["steps"]) - 1)
            r = hh["steps"][j]["regs"][hh["steps"][j]["d"] - 1]
            if r:
                r[0] ^= 1
                if len(r) == 1 and r[0] == 0:
                    r.clear()
            else:
                r.append(1)
            negs.append((j + 1, hh))
    nshard = min(vlib.NCPU, 16)
    shards = [[] for _ in range(nshard)]
    for k, item in enumerate([("real", sc, h) for sc, h in hists] + [("neg", j, h) for j, h in negs]):
        shards[k % nshard].append(item)
    procs = []
    for si, items in enumerate(shards):
        if not items:
            continue
        tp = os.path.join(workdir, f"{tag}_trace_{si}.ndjson")
        with open(tp, "w") as fh:
            for it in items:
                fh.write(json.dumps(it[2], separators=(",", ":")) + "\n")
        cmd = vlib.tlc_cmd("MachineTrace.tla", "MachineTrace.cfg", os.path.join(workdir, f"{tag}_meta_{si}"))
        cmd[1:1] = ["-Dtlc2.tool.queue.IStateQueue=StateDeque"]
        env = dict(os.environ, TRACE=tp)
        procs.append((si, items, subprocess.Popen(cmd, cwd=vlib.SPEC, env=env, stdout=subprocess.PIPE, stderr=subprocess.STDOUT, text=True)))
    nsteps = 0
    neg_inj = neg_rej = 0
    for si, items, pr in procs:
        try:
            out, _ = pr.communicate(timeout=3000)
        except subprocess.TimeoutExpired:
            pr.kill()
            raise vlib.ToolError(f"TLC timed out on MachineTrace shard {si}")
        if "No error has been found" not in out or "TRACE-NOT-CONSUMED" in out:
            raise vlib.ToolError("TLC failed on MachineTrace: " + out[-1500:])
        bad = {}
        for m in re.finditer(r'<<"MISMATCH", (\d+), (\d+), "([a-z_0-9]+)">>', out):
            bad.setdefault(int(m.group(1)), []).append((int(m.group(2)), m.group(3)))
        for li, it in enumerate(items, start=1):
            if it[0] == "real":
                sc, h = it[1], it[2]
                nsteps += len(h["steps"]) - 1
                if li in bad:
                    i, op = bad[li][0]
                    st = h["steps"][i - 1]
                    small = dict(sc, op="driver_history", failing_step=i, failing_op=op, step=st, before=h["steps"][i - 2]["regs"],
                                 all_failing=[list(b) for b in bad[li][:10]], st="ok")
                    res.violations.append((small, ["step:" + op], sorted(sc.keys())))
            else:
                neg_inj += 1
                if li in bad and any(i == it[1] for i, _ in bad[li]):
                    neg_rej += 1
                else:
                    res.extra.setdefault("neg_not_rejected", []).append({"op": "driver_history", "neg": "reg", "bits": it[2]["bits"], "step": it[1]})
    return nsteps, len(hists), neg_inj, neg_rej


def main(tier, seed, replay, t0):
    rng = random.Random(seed)
    quick = tier == "quick"
    workdir = os.path.join(vlib.OUT, "C04")
    os.makedirs(workdir, exist_ok=True)
    vlib.build(["ux_mach", "ux_bits", "ux_fac", "ux_conv"])
    res = runner.Result()
    violations = []
    extra = {}
    if replay:
        rp = json.load(open(replay))
        scn = rp["scenario"]
        if scn.get("g") == "d":
            driver_histories([{k: scn[k] for k in ("g", "bits", "seed", "steps")}], workdir, res, tag="drv_replay")
        elif scn.get("g") in ("t", "h"):
            sp, ep = os.path.join(workdir, "replay_scen.ndjson"), os.path.join(workdir, "replay_ev.ndjson")
            open(sp, "w").write(json.dumps(scn) + "\n")
            vlib.execute("ux_mach", sp, ep)
            ev = json.loads(open(ep).read())
            bad = (scn["g"] == "t" and ev.get("got") != [scn["v"], scn["f"]]) or (scn["g"] == "h" and ev.get("diverged"))
            if bad:
                res.violations.append((ev, ["replay"], sorted(scn.keys())))
        else:
            binname = {"bits": "ux_bits", "canon": "ux_fac", "conv": "ux_conv"}[scn["g"]]
            runner.run_pipeline("C04", {binname: [scn]}, tier, seed, res, neg_every=10**9, workdir=workdir + "_replay")
        return runner.finish("C04", tier, seed, res, t0, "model_checking", RULE, vlib.DEFAULT_ASSUMPTIONS, evidence_name="C04_replay")

    # the compile-and-run probes and the two simulations do not depend on anything else: they run beside the exhaustive exploration
    from concurrent.futures import ThreadPoolExecutor
    pool = ThreadPoolExecutor(max_workers=4)
    nsim = 40 if quick else 400
    fut_sim = pool.submit(tlc_machine, "MC_Machine_sim", workdir, nsim, seed)
    fut_simf = pool.submit(tlc_machine, "MC_Machine_simfocus", workdir, nsim, seed + 17)
    # ---- (B1) exhaustive exploration of the machine, every transition replayed
    try:
        recs, st = tlc_machine("MC_Machine_small" if quick else "MC_Machine_large", workdir)
    except BaseException:
        pool.shutdown(wait=True, cancel_futures=True)
        raise
    fut_probes = pool.submit(lambda: (ctor_probes(workdir, quick), alt_config_probes(workdir, quick)))
    trans = [dict(r, g="t") for k, r in recs if k == "T"]
    sp, ep = os.path.join(workdir, "t_scen.ndjson"), os.path.join(workdir, "t_ev.ndjson")
    with open(sp, "w") as fh:
        for t in trans:
            fh.write(json.dumps(t, separators=(",", ":")) + "\n")
    xst = vlib.execute("ux_mach", sp, ep)
    res.hangs += xst["hangs"]
    res.crashes += xst["crashes"]
    per_op = {}
    nbad = 0
    with open(ep) as fh:
        for t, line in zip(trans, fh):
            ev = json.loads(line)
            per_op[t["op"]] = per_op.get(t["op"], 0) + 1
            if ev.get("st") != "ok" or ev.get("got") != [t["v"], t["f"]]:
                nbad += 1
                res.violations.append((ev, ["got"], sorted(t.keys())))
    res.states += st["distinct"]
    res.transitions += len(trans)
    # distinct non-trivial machine cases: transitions with a non-zero operand (each emitted transition is distinct)
    res.extra["_extra_distinct"] = sum(1 for t in trans if t["a"] or t["b"] or t["m"] or t["k"])
    extra["machine_exhaustive"] = {"tlc_states": st["distinct"], "transitions_replayed": len(trans), "mismatches": nbad,
                                   "per_action": per_op, "invariants": ["Canonical", "NativeOK", "TypeOK"]}
    # ---- (B2) simulated histories at real widths
    recs, st2 = fut_sim.result()
    # second batch restricted to the operations that can leave stale bits above BITS (sign fill, complement, rotation,
    # whole-limb shifts, products, narrowing conversions), at the non-aligned widths
    recs2, st3 = fut_simf.result()
    hists = [dict(r, g="h") for k, r in recs if k == "H"] + [dict(r, g="h") for k, r in recs2 if k == "H"]
    sp, ep = os.path.join(workdir, "h_scen.ndjson"), os.path.join(workdir, "h_ev.ndjson")
    with open(sp, "w") as fh:
        for h in hists:
            fh.write(json.dumps(h, separators=(",", ":")) + "\n")
    if hists:
        xst = vlib.execute("ux_mach", sp, ep, hang_secs=60)
        res.hangs += xst["hangs"]
        res.crashes += xst["crashes"]
        nsteps = 0
        with open(ep) as fh:
            for h, line in zip(hists, fh):
                ev = json.loads(line)
                nsteps += len(h["steps"]) - 1
                if ev.get("st") != "ok" or ev.get("diverged", 1) != 0:
                    small = {"g": "h", "bits": h["bits"], "steps": h["steps"], "diverged": ev.get("diverged"), "detail": ev.get("detail"),
                             "st": ev.get("st"), "op": "history"}
                    res.violations.append((small, ["history"], ["g", "bits", "steps"]))
        res.transitions += nsteps
        res.extra["_extra_distinct"] = res.extra.get("_extra_distinct", 0) + len(hists)
        extra["machine_histories"] = {"histories": len(hists), "steps": nsteps, "widths": sorted({h["bits"] for h in hists})}
        res.shards += len(hists)
    if len(hists) < nsim // 2:
        extra["machine_histories_note"] = f"only {len(hists)} of {nsim} simulated behaviours reached the emission depth"
    # ---- (B4) histories chosen by the implementation-side driver, validated by TLC against the machine
    per_w = 3 if quick else 20
    dscen = [{"g": "d", "bits": b, "seed": seed * 100003 + 17 * b + k, "steps": 60 if quick else 120} for b in DRIVE_WIDTHS for k in range(per_w)]
    dsteps, dh, ninj, nrej = driver_histories(dscen, workdir, res)
    res.transitions += dsteps
    res.shards += dh
    res.neg_injected += ninj
    res.neg_rejected += nrej
    res.extra["_extra_distinct"] = res.extra.get("_extra_distinct", 0) + dh
    extra["driver_histories"] = {"histories": dh, "steps_validated": dsteps, "widths": DRIVE_WIDTHS,
                                 "negative_controls": {"injected": ninj, "rejected": nrej},
                                 "direction": "implementation -> specification: ux_mach's own driver draws the operations, registers and "
                                              "immediates; spec/MachineTrace.tla checks every logged step against UintMachine!Apply"}
    # ---- (P) ill-formed types
    probes, alt = fut_probes.result()
    pool.shutdown(wait=True)
    extra["alt_config_probes"] = {"configuration": "ruint built with the feature `rand` alone (the rand-0.8 inherent methods are cfg'd out "
                                                   "whenever rand-09 is enabled)", "events": len(alt), "widths": [b for b, _ in ALT_WIDTHS]}
    extra["ctor_probes"] = {"probes": len(probes),
                            "outcomes": {o: sum(1 for e, _ in probes if e["outcome"] == o) for o in ("compile_error", "panic", "obtained")}}
    # ---- (B3) events
    group = event_scenarios(tier, rng)
    runner.run_pipeline("C04", group, tier, seed, res, pre_events=probes + alt, neg_skip=("hasheq", "detail", "r9_thread", "qc", "r8o_thread", "r8o_rize_thread"), workdir=workdir)
    if res.samples is not None and trans:
        res.samples = ([trans[len(trans) // 2]] + ([{"history_bits": hists[0]["bits"], "first_steps": hists[0]["steps"][:3]}] if hists else [])
                       + res.samples)[:6]
    return runner.finish("C04", tier, seed, res, t0, "model_checking", RULE, vlib.DEFAULT_ASSUMPTIONS + [
        "ill-formed Uint types are observed through one-line probe programs compiled by rustc against the rlib built from the working tree"],
        extra_cov=extra)
