"""C17 decoders are total on untrusted input."""
from ..vlib import WIDTHS, tobytes, rand_value
from .. import formats as F
import struct

BINS = ["ux_codec"]
PIPE = {"hang_secs": 30, "neg_skip": ("der_anyref", "der_any_r", "der_any_o", "der_intref", "der_uintref")}
RULE = ("every decoder (alloy-rlp, fastrlp 0.3/0.4, rlp Uint+Bits, SCALE fixed+compact, SSZ, borsh Uint+Bits, DER from_der and "
        "the AnyRef/IntRef/UintRef conversions, serde_json, bincode, BigUint/BigInt, ark-ff BigInt, 17 postgres from_sql types) "
        "is run on EVERY generated input: for each width the valid encodings (every format) of boundary values with each "
        "single-field mutation (length byte +-1, long<->short length form, length-of-length +-1, declared length > remaining, "
        "prepended 00, excess high bits up to the next byte and limb boundary, truncation by 1..n, one appended byte, list bit, "
        "DER tag / negative, SCALE mode bits rotated, NUMERIC header fields -1/0/i16::MAX, BIT length header 0/1/-1/huge with "
        "empty or short payload and bit counts that disagree with the payload by one bit / one byte, FLOAT4/FLOAT8 images of ties, "
        "range ends +-1 ulp, negatives, -0.0, subnormals, inf, NaN, MONEY -1/-99/-100/i64::MIN, JSON quote / prefix damage, JSONB version byte, empty input) plus random strings of length "
        "0..BYTES+16; widths incl. 60 and 250 (BYTES%8=0, BITS%64!=0) and non-multiples of 8; a case is one distinct "
        "(width, input)")

DEC_WIDTHS = [0, 1, 7, 8, 9, 16, 60, 63, 64, 65, 127, 128, 129, 250, 255, 256, 257, 440, 448, 512, 535, 536, 1024]


def mutations(enc):
    out = [list(enc)]
    if enc:
        for d in (-1, 1):
            m = list(enc); m[0] = (m[0] + d) % 256; out.append(m)
        if len(enc) > 1:
            for d in (-1, 1):
                m = list(enc); m[1] = (m[1] + d) % 256; out.append(m)
            m = list(enc); m[-1] ^= 0x80; out.append(m)
            m = list(enc); m[1] |= 0x80; out.append(m)
        for k in range(1, min(len(enc), 4) + 1):
            out.append(list(enc[:-k]))
        out.append(list(enc) + [0])
        out.append(list(enc) + [0xff])
        out.append([0] + list(enc))
        m = list(enc); m[0] ^= 0x40; out.append(m)       # RLP list bit / SCALE mode / DER class
        m = list(enc); m[0] = (m[0] & 0xfc) | ((m[0] + 1) & 3); out.append(m)   # SCALE mode bits rotated
    return out


def float_inputs(bits, rng):
    """big-endian FLOAT4 / FLOAT8 images around the values that matter for from_sql (ties, range end, specials)."""
    out = []
    mx = (1 << min(bits, 1000)) - 1          # beyond the double range the width's maximum is not a float anyway
    bits = min(bits, 1000)
    cands = [0.0, -0.0, 0.25, 0.49999999, 0.5, 0.75, 1.0, 1.5, 2.5, 3.5, -0.25, -0.5, -0.75, -1.0, 255.5, 256.5, 65535.5,
             float(mx), float(mx) + 0.5, float(mx) + 1.0, float(mx >> 1), float(1 << bits), float(1 << bits) - 0.5,
             float((1 << bits) * 2), 2.0 ** 24 - 1, 2.0 ** 24 + 2, 2.0 ** 53 - 1, 2.0 ** 53 + 2, 2.0 ** 63, 2.0 ** 64, 2.0 ** 127,
             2.0 ** 128 if bits > 64 else 3.0, 1e30, 1e300, 5e-324, 1.1754944e-38, float("inf"), float("-inf"), float("nan")]
    for _ in range(4):
        v = rng.getrandbits(max(1, min(bits, rng.randrange(1, 70))))
        cands += [float(v), float(v) + 0.5, float(v) - 0.5]
    for f in cands:
        try:
            out.append(list(struct.pack(">d", f)))
        except (OverflowError, struct.error):
            pass
        try:
            out.append(list(struct.pack(">f", f)))
        except (OverflowError, struct.error):
            pass
    # next-below / next-above patterns at the range end and at a tie
    for f in (float(1 << bits), float(mx) + 0.5, 0.5, 2.5):
        try:
            d = struct.unpack(">Q", struct.pack(">d", f))[0]
            out += [list(struct.pack(">Q", d - 1)), list(struct.pack(">Q", d + 1))]
            w = struct.unpack(">I", struct.pack(">f", f))[0]
            out += [list(struct.pack(">I", w - 1)), list(struct.pack(">I", w + 1))]
        except (OverflowError, struct.error):
            pass
    out += [[0x7f, 0xf0, 0, 0, 0, 0, 0, 1], [0xff, 0xf8, 0, 0, 0, 0, 0, 0], [0x7f, 0xc0, 0, 0], [0x7f, 0x80, 0, 1], [0x80, 0, 0, 1]]
    return out


def money_inputs():
    vals = [-1, -50, -99, -100, -101, -199, -200, -(1 << 63), -(1 << 63) + 1, 99, 100, 101, 199, (1 << 63) - 1, 12345]
    return [list((v & ((1 << 64) - 1)).to_bytes(8, "big")) for v in vals]


def bit_header_inputs(bits, rng):
    """BIT / VARBIT images whose 4-byte bit-count header disagrees with the payload."""
    out = []
    nb = (bits + 7) // 8
    for ln in {1, 7, 8, 9, bits, max(bits - 1, 0), bits + 1, bits + 8, max(bits - 8, 0), 8 * nb}:
        hdr = list(ln.to_bytes(4, "big"))
        k = (ln + 7) // 8
        for pl in {0, max(k - 1, 0), k, k + 1, nb}:
            if pl > nb + 8:
                continue
            out.append(hdr + [rng.getrandbits(8) | 1 for _ in range(pl)])
            out.append(hdr + [0] * max(pl - 1, 0) + ([1 << (8 * k - ln) % 8] if pl else []))
    return out


def scenarios(tier, rng):
    quick = tier == "quick"
    sc = []
    widths = DEC_WIDTHS if not quick else [0, 1, 7, 8, 60, 64, 65, 128, 250, 256, 440, 448, 512, 535, 536]
    for bits in widths:
        nb = (bits + 7) // 8
        mx = (1 << bits) - 1
        inputs = []
        vals = {0, 1, 0x7f, 0x80, 0xff, 0x100, mx, mx + 1, mx >> 1, (mx << 1) | 1, 1 << (8 * nb) if nb else 1, (1 << (8 * nb)) - 1,
                (1 << (64 * ((bits + 63) // 64))) - 1, rand_value(rng, bits), 63, 64, (1 << 14) - 1, 1 << 14, (1 << 30) - 1, 1 << 30,
                (1 << 32) + 5, (1 << 64) - 1, 1 << 64}
        if not quick:
            vals.update(rand_value(rng, bits) for _ in range(6))
            vals.update({1 << k for k in range(bits, min(bits + 70, 8 * nb + 64))})
        for v in sorted(vals):
            encs = [F.rlp(v), F.scale_compact(v), F.der(v), F.json_q(v), F.pg_numeric(v), F.be_min(v), F.be_min(v)[::-1],
                    [ord(c) for c in hex(v)], [ord(c) for c in str(v)], [1] + F.json_q(v)]
            if v < 1 << (8 * nb):
                encs += [F.scale_fixed(v, nb), list(v.to_bytes(nb, "little")), list(v.to_bytes(nb, "big")), F.bincode(v, nb),
                         F.rlp_str(list(v.to_bytes(nb, "big"))), list(v.to_bytes(8 * ((bits + 63) // 64), "little"))]
                if bits:
                    encs.append(F.pg_bits(v & mx, bits))
            if v < 1 << 63:
                encs += [list(v.to_bytes(8, "big")), list((v * 100 % (1 << 63)).to_bytes(8, "big"))]
            if v < 1 << 31:
                encs += [list(v.to_bytes(4, "big")), list(v.to_bytes(2, "big")) if v < 1 << 15 else [0, 0]]
            for enc in encs:
                muts = mutations(enc)
                if quick and len(muts) > 6:
                    muts = muts[:3] + rng.sample(muts[3:], 3)
                inputs += muts
        # format-specific hostile headers
        inputs += [[], [0], [1], [2], [34], [34, 34], [1, 34], [0x80], [0x81, 0], [0x81, 0x7f], [0x81, 0x80], [0xb8, 0], [0xb8, 1, 5],
                   [0xb8, 56] + [1] * 56, [0xb9, 0, 56] + [1] * 56, [0xbf] + [0xff] * 8, [0xbf, 0, 0, 0, 0, 0, 0, 0, 1, 5], [0xc0], [0xc1, 1],
                   [2, 0], [2, 1], [2, 1, 0], [2, 1, 0x80], [2, 2, 0, 0x7f], [2, 2, 0, 0x80], [2, 0x81, 1, 5], [2, 0x84, 0, 0, 0, 1, 5], [3, 1, 5], [2, 0x80],
                   [0, 0, 0, 0], [0, 0, 0, 1], [0, 0, 0, 1, 0x80], [0xff, 0xff, 0xff, 0xff], [0x7f, 0xff, 0xff, 0xff], [0, 0, 0, 8], [0, 0, 0, 9, 0xff],
                   [0, 0, 0, 0, 0, 0, 0, 0], [0, 1, 0x7f, 0xff, 0, 0, 0, 0, 0, 1], [0xff, 0xff, 0, 0, 0, 0, 0, 0], [0, 1, 0, 0, 0, 0, 0, 0, 0x27, 0x10],
                   [0, 1, 0, 0, 0x40, 0, 0, 0, 0, 1], [0, 1, 0, 0, 0, 0, 0, 1, 0, 1], [0, 2, 0, 0, 0, 0, 0, 0, 0, 1], [0, 1, 0x7f, 0xff, 0, 0, 0, 0, 0, 1],
                   [3], [7], [0xff], [0xfd, 1, 2, 3], [0x13, 1, 2, 3, 4, 5, 6, 7, 8], [0x33] + [0xff] * 16, [0x0b, 0, 0, 0, 0, 1, 0, 0, 1],
                   [ord(c) for c in '"'], [ord(c) for c in '"0x"'], [ord(c) for c in '0x'], [ord(c) for c in '"0xg"'], [ord(c) for c in '""'],
                   [ord(c) for c in '1e3'], [ord(c) for c in '-1'], [ord(c) for c in ' 12 '], [ord(c) for c in '"12'], [ord(c) for c in 'null'],
                   [ord(c) for c in '[1]'], [0xc3, 0xa9],
                   # multi-byte UTF-8 around the position where FromStr looks for a two-byte prefix
                   list("1é".encode()), list("€5".encode()), list("0×10".encode()), list("😀".encode()), list("0é".encode()),
                   list("é1".encode()), list("１２".encode()), list('"1é"'.encode()), list('"€"'.encode()), list('"0×10"'.encode()),
                   list('"😀"'.encode()), [1] + list('"1é"'.encode()), list("0xé".encode()), list('"0xé"'.encode()), [ord(c) for c in '"\\u0031"'], [2] + [ord(c) for c in '"0x1"'], [1]]
        # DER: a well-formed INTEGER body under every other universal tag (and other classes) does not denote an integer
        for v in (5, mx, mx >> 1, 0x80):
            body = F.der(v)
            for tag in (0x01, 0x03, 0x04, 0x05, 0x0a, 0x0c, 0x13, 0x16, 0x30, 0x31, 0x42, 0x80, 0x82, 0xa0, 0xa2):
                inputs.append([tag] + list(body[1:]))
        inputs += float_inputs(bits, rng) + money_inputs() + bit_header_inputs(bits, rng)
        for _ in range(40 if quick else 400):
            ln = rng.randrange(0, nb + 17)
            inputs.append([rng.getrandbits(8) for _ in range(ln)])
        seen = set()
        for x in inputs:
            t = tuple(x)
            if t in seen or len(x) > nb + 80 or any(b > 255 or b < 0 for b in x):
                continue
            seen.add(t)
            sc.append({"g": "codec", "op": "dec", "bits": bits, "x": list(x)})
    return {"ux_codec": sc}
