"""C19 uint! literals: compiled probe programs, judged by spec/Literal.tla (translation validation:
the translator is the macro, the reference semantics is Classify in Literal.tla)."""
import json
import os
import random
import re
import shutil
import subprocess
import time

from .. import vlib, runner
from ..vlib import tobytes, ToolError

LEVEL = "translation_validation"
RULE = ("literal tokens: {decimal, 0x, 0o, 0b} x digit templates {0,1,2^bits-1,2^bits,2^bits+1,2^(64k)+-1, leading zeros, "
        "embedded / trailing underscores, upper/lower/mixed hex, a digit equal to the base (a/A in decimal), a digit above it} x "
        "suffix {U,B} x widths {0,1,7,8,63,64,65,128,256,4096} x separator {_, none}; non-matching tokens (ordinary suffixed "
        "literals, hex literals ending in B<digits>, strings/chars containing U8, floats); nesting depth 0..3 in (), [], {}; both "
        "entry points uint! and uint_with_path!; every token is compiled inside and outside the macro; a program = one token in "
        "one probe function")

PRELUDE = r'''#![allow(unused, clippy::all)]
use ruint::{Bits, Uint};
trait K { fn describe(&self) -> String; }
impl<const B: usize, const L: usize> K for Uint<B, L> { fn describe(&self) -> String { format!("U {} {} {:?}", B, L, self.as_limbs()) } }
impl<const B: usize, const L: usize> K for Bits<B, L> { fn describe(&self) -> String { format!("B {} {} {:?}", B, L, self.as_limbs()) } }
macro_rules! prim { ($($t:ident),*) => { $( impl K for $t { fn describe(&self) -> String { format!("P {} {:?}", stringify!($t), self) } } )* } }
prim!(u8, u16, u32, u64, u128, usize, i8, i16, i32, i64, i128, isize, f32, f64, char, bool);
impl K for &str { fn describe(&self) -> String { format!("P str {:?}", self) } }
impl<const N: usize> K for &[u8; N] { fn describe(&self) -> String { format!("P bytes {:?}", self) } }
// the token reaches uint! through a macro_rules fragment: `$e:expr` / `$e:literal` arrive wrapped in an invisible
// (None-delimited) group, `$($e:tt)*` arrives as the bare token
macro_rules! via_expr { ($e:expr) => { ruint::uint!{ K::describe(&$e) } } }
macro_rules! via_lit { ($e:literal) => { ruint::uint!{ K::describe(&$e) } } }
macro_rules! via_tt { ($($e:tt)*) => { ruint::uint!{ K::describe(&$($e)*) } } }
macro_rules! via_expr2 { ($e:expr) => { via_expr!(($e)) } }
'''

NEST = ["( {T} )", "[( {T} )][0]", "{{ [{{ ( {T} ) }}][0] }}", "( ( ( {T} ) ) )"]


def tokens(tier, rng):
    quick = tier == "quick"
    toks = []   # (token text, rt info or None)

    def lit(base, digits, kind, width, sep):
        pre = {10: "", 16: "0x", 8: "0o", 2: "0b"}[base]
        toks.append((f"{pre}{digits}{sep}{kind}{width}", (base, digits, width)))

    def text(v, base, upper=False):
        if v == 0:
            return "0"
        ds = ""
        while v:
            ds = "0123456789abcdef"[v % base] + ds
            v //= base
        return ds.upper() if upper else ds

    widths = [0, 1, 7, 8, 63, 64, 65, 128, 256, 4096]
    for w in widths:
        vals = {0, 1, (1 << w) - 1, 1 << w, (1 << w) + 1, (1 << w) >> 1}
        for k in range(1, (w + 63) // 64):
            vals.update({(1 << (64 * k)) - 1, 1 << (64 * k), (1 << (64 * k)) + 1})
        vals = sorted(v for v in vals if v >= 0)
        if w == 4096:
            vals = [0, (1 << w) - 1, 1 << w, (1 << 64) + 1]
        for v in vals:
            for base in (10, 16, 8, 2):
                if w == 4096 and base in (8, 2) and quick:
                    continue
                for kind in ("U", "B"):
                    for sep in ("_", ""):
                        if quick and rng.random() < 0.5 and w not in (0, 1, 8, 64, 65):
                            continue
                        d = text(v, base)
                        if base == 16 and sep == "" and kind == "U" and d[-1:] in "abcdef":
                            pass        # 0xffU8 is fine: U is not a hex digit
                        lit(base, d, kind, w, sep)
            # digit templates
            d = text(v, 10)
            lit(10, "00" + d, "U", w, "_")
            lit(10, "_".join(d[i:i + 3] for i in range(0, len(d), 3)), "U", w, "_")
            h = text(v, 16)
            lit(16, h.upper(), "U", w, "_")
            lit(16, "".join(c.upper() if i % 2 else c for i, c in enumerate(h)), "B", w, "_")
            lit(16, "0_0" + h, "U", w, "__")
        # invalid digits for the base
        for bad in ("1a", "1A", "1f", "9a9", "1_a", "0a", "1aa"):
            lit(10, bad, "U", max(w, 8), "_")
        lit(8, "7a", "U", max(w, 8), "_")
        lit(2, "1a", "U", max(w, 8), "_")
        lit(2, "12", "U", max(w, 8), "_")       # the Rust lexer rejects it
        lit(8, "8", "U", max(w, 8), "_")
        lit(10, "1g", "U", max(w, 8), "_")
    # hexadecimal literals whose DIGITS contain b / B / u-like shapes, both suffix kinds, with and without separator, random
    # letter case: the suffix must be found from the right, not at the first U or B
    for w, v in ((8, 0xB0), (8, 0xAB), (8, 0xBB), (8, 0x0B), (16, 0xB0B0), (16, 0xABBA), (32, 0xDEADBEEF), (32, 0xB16B00B5),
                 (64, 0xB8B8B8B8B8B8B8B8), (64, 0xABCDEF0123456789), (128, 0xB << 124), (65, (1 << 64) | 0xB),
                 (256, int("B" * 64, 16)), (12, 0xB8B), (4, 0xB), (3, 0xB)):
        h = text(v, 16)
        forms = {h, h.upper(), "".join(c.upper() if c == "b" else c for c in h), "".join(c.upper() if rng.random() < 0.5 else c for c in h)}
        if len(h) > 2:
            forms.add(h[:1].upper() + "_" + h[1:].upper())
        for d in sorted(forms):
            for kind in ("U", "B"):
                for sep in ("_", ""):
                    lit(16, d, kind, w, sep)
    # long decimal literals with runs of trailing (and inner) zeros: a chunked accumulator must not drop a final chunk of zeros
    for w in (64, 65, 128, 256, 512):
        for k in range(17, 62):
            for dd in (1, 2, 9, 123, 10 ** 18 + 1):
                v = dd * 10 ** k
                if v.bit_length() > w + 2 or (quick and rng.random() < 0.55):
                    continue
                lit(10, text(v, 10), "U", w, "_")
        lit(10, "1" + "0" * 19 + "7" + "0" * 19, "U", max(w, 256), "_")
        lit(10, "9" * 19 + "0" * 19, "U", max(w, 128), "_")
    # a base prefix is recognised only in the first two characters: `0_x1f_U8` is the decimal digit string 0_x1f_ (the Rust lexer
    # reads it as decimal 0_ with suffix x1f_U8), so it holds an invalid decimal digit and must be rejected, not read as hexadecimal
    for t in ["0_x1f_U8", "0_b101_U8", "0_o17_U8", "0_x_ff_B16", "0__x1f_U8", "0_xff_U64", "0_b1_U1", "0_o7_U64", "0_x0_U0",
              "00x1f_U8", "00b1_U8", "0_0x1_U8", "0_x1f_B8", "0_b11_B8", "0_XFF_U8", "0_x1_U256", "0_b1_U65", "0_o1_U128"]:
        toks.append((t, None))
    # non-matching tokens: must pass through unchanged
    for t in ["1_u8", "300_u16", "0xAB12", "0xffB8", "0xBBBB_B432_u64", "12", "0b101", "0o17", "1_000_000u64", "255u8", "0xB", "0xB8",
              "0xABB16", "2.5", "1.0_f64", "1e3", '"5_U8"', '"U8"', "'U'", "'B'", 'b"1_U8"', "true", "0x1B8_i32", "0xffu8", "7_i64",
              "0x0B0_u16", "1_u128", "0xdead_beef_u32",
              # hexadecimal literals with INNER underscores that merely end in B<digits>
              "0x1_2B8", "0x7FFF_FFB1", "0xAB_CDB16", "0x_1B8", "0xB_0B8", "0x1_2b8"]:
        toks.append((t, None))
    # hex with separated B suffix: ours
    for t in ["0xff_B8", "0xBBB_B12", "0x0_B0", "0xB_B4", "0xB_B3"]:
        toks.append((t, None))
    seen = set()
    out = []
    for t, rt in toks:
        if t not in seen:
            seen.add(t)
            out.append((t, rt))
    return out


def write_crate(d):
    os.makedirs(os.path.join(d, "src"), exist_ok=True)
    with open(os.path.join(d, "Cargo.toml"), "w") as fh:
        fh.write('[package]\nname = "litprobe"\nversion = "0.0.0"\nedition = "2021"\n\n[workspace]\n\n[dependencies]\n'
                 f'ruint = {{ path = "{vlib.REPO}" }}\nruint-macro = {{ path = "{vlib.REPO}/ruint-macro" }}\n\n'
                 '[profile.dev]\nopt-level = 0\ndebug = false\n')
    os.makedirs(os.path.join(d, ".cargo"), exist_ok=True)
    with open(os.path.join(d, ".cargo", "config.toml"), "w") as fh:
        fh.write('[net]\noffline = true\n[build]\ntarget-dir = "target"\n')
    shutil.copy(os.path.join(vlib.REPO, "Cargo.lock"), os.path.join(d, "Cargo.lock"))


def gen_source(items, stub):
    """items: list of dict(idx, tok, form, entry, rt).  stub: set of (fn name) replaced by an ERROR body."""
    lines = [PRELUDE]
    line_of = {}
    names = []
    for it in items:
        i = it["idx"]
        expr = it["form"].replace("{T}", it["tok"])
        if it["entry"] in ("via_expr", "via_lit", "via_tt", "via_expr2"):
            m = f'fn m_{i}() -> String {{ {it["entry"]}!({expr if it["entry"] != "via_lit" else it["tok"]}) }}'
        elif it["entry"] == "uint":
            m = f'fn m_{i}() -> String {{ ruint::uint!{{ K::describe(&{expr}) }} }}'
        else:
            m = f'fn m_{i}() -> String {{ ruint_macro::uint_with_path!{{ [ruint] K::describe(&{expr}) }} }}'
        p = f'fn p_{i}() -> String {{ K::describe(&{expr}) }}'
        if it["rt"] and it["rt"][2] <= 4096:
            base, digits, width = it["rt"]
            limbs = (width + 63) // 64
            r = (f'fn r_{i}() -> String {{ match Uint::<{width}, {limbs}>::from_str_radix("{digits}", {base}) '
                 f'{{ Ok(v) => format!("ok {{:?}}", v.as_limbs()), Err(_) => "err".to_string() }} }}')
        else:
            r = f'fn r_{i}() -> String {{ "none".to_string() }}'
        for name, body in ((f"m_{i}", m), (f"p_{i}", p), (f"r_{i}", r)):
            if name in stub:
                body = f'fn {name}() -> String {{ "ERROR".to_string() }}'
            lines.append(body)
            line_of[len("\n".join(lines).split("\n"))] = name
            names.append(name)
    # a probe that compiles but panics when it is run (e.g. a wrongly accepted literal whose limbs from_limbs rejects) is an
    # observation, not a tool failure
    # (one function-pointer instantiation of catch_unwind: thousands of generic instantiations made rustc take minutes)
    lines.append('fn run_probe(f: fn() -> String) -> String { std::panic::catch_unwind(f).unwrap_or_else(|_| "PANIC".to_string()) }')
    lines.append("fn main() {")
    lines.append("    std::panic::set_hook(Box::new(|_| {}));")
    for n in names:
        lines.append(f'    println!("{n}\\t{{}}", run_probe({n}));')
    lines.append("}")
    return "\n".join(lines) + "\n", line_of


def cargo_build(d):
    env = dict(os.environ, CARGO_NET_OFFLINE="true", RUST_BACKTRACE="0")
    try:
        r = subprocess.run(["cargo", "build", "--offline", "--message-format=json"], cwd=d, env=env, capture_output=True, text=True,
                           timeout=1500)
    except subprocess.TimeoutExpired:
        raise ToolError("the probe crate did not compile within 25 minutes: the uint! macro does not terminate on one of the "
                        "literals (the normal build takes seconds) -- not attributed to a token")
    err_lines = set()
    other_errors = []
    for line in r.stdout.split("\n"):
        if not line.startswith("{"):
            continue
        try:
            msg = json.loads(line)
        except Exception:
            continue
        if msg.get("reason") != "compiler-message":
            continue
        m = msg["message"]
        if m.get("level") != "error":
            continue
        got = False

        def walk(sp):
            nonlocal got
            if sp.get("file_name", "").endswith("src/main.rs"):
                err_lines.add(sp["line_start"])
                got = True
            if sp.get("expansion"):
                walk(sp["expansion"]["span"])
        for sp in m.get("spans", []):
            if sp.get("is_primary"):          # secondary spans (e.g. "similar name exists") point at innocent lines
                walk(sp)
        if not got and "aborting due to" not in m.get("message", "") and "could not compile" not in m.get("message", ""):
            other_errors.append(m.get("message", "")[:200])
    return r.returncode, err_lines, other_errors, r.stderr[-2000:]


def observe(items, workdir):
    d = os.path.join(workdir, "probe")
    write_crate(d)
    stub = set()
    for attempt in range(4):
        src, line_of = gen_source(items, stub)
        with open(os.path.join(d, "src", "main.rs"), "w") as fh:
            fh.write(src)
        rc, err_lines, other, stderr = cargo_build(d)
        if rc == 0:
            break
        new = {line_of[l] for l in err_lines if l in line_of}
        if not new - stub:
            raise ToolError(f"probe crate does not build and no item is to blame: {other[:3]} {stderr[-500:]}")
        stub |= new
    else:
        raise ToolError("probe crate still failing after 4 rounds")
    r = subprocess.run([os.path.join(d, "target", "debug", "litprobe")], capture_output=True, text=True, timeout=300)
    if r.returncode != 0:
        raise ToolError("probe binary failed: " + r.stderr[-500:])
    out = {}
    for line in r.stdout.split("\n"):
        if "\t" in line:
            n, v = line.split("\t", 1)
            out[n] = v
    return out, stub


def parse_desc(s):
    """describe() output -> observation tuple for the event"""
    if s == "ERROR":
        return ["error"]
    if s == "PANIC":
        return ["panic"]
    kind = s[0]
    if kind in "UB":
        _, bits, limbs, arr = s.split(" ", 3)
        ls = [int(x) for x in re.findall(r"\d+", arr)]
        raw = []
        for l in ls:
            raw += list(l.to_bytes(8, "little"))
        return [kind, int(bits), int(limbs), raw]
    _, ty, txt = s.split(" ", 2)
    return ["P", ty, [ord(c) for c in txt]]


def main(tier, seed, replay, t0):
    rng = random.Random(seed)
    workdir = os.path.join(vlib.OUT, "C19")
    os.makedirs(workdir, exist_ok=True)
    toks = tokens(tier, rng)
    if replay:
        rp = json.load(open(replay))
        t = "".join(chr(c) for c in rp["scenario"]["tok"])
        toks = [(t, None)]
    items = []
    for k, (t, rt) in enumerate(toks):
        form = NEST[0] if k % 5 else NEST[(k // 5) % len(NEST)]
        entry = "uint" if k % 7 else "with_path"
        if k % 11 == 3:
            # every 11th token goes through a macro_rules fragment first (invisible groups)
            entry = ("via_expr", "via_lit", "via_tt", "via_expr2")[(k // 11) % 4]
            if entry == "via_lit" and not re.fullmatch(r"[0-9][0-9A-Za-z_]*|\"[^\"]*\"|'.'|true|[0-9.]+[0-9a-z_]*", t):
                entry = "via_expr"
        items.append({"idx": k, "tok": t, "form": form, "entry": entry, "rt": rt})
    obs, stub = observe(items, workdir)
    events = []
    for it in items:
        i = it["idx"]
        m = parse_desc(obs.get(f"m_{i}", "ERROR"))
        p = parse_desc(obs.get(f"p_{i}", "ERROR"))
        r = obs.get(f"r_{i}", "none")
        if r.startswith("ok"):
            ls = [int(x) for x in re.findall(r"\d+", r[2:])]
            v = sum(l << (64 * j) for j, l in enumerate(ls))
            rt = ["ok", tobytes(v)]
        else:
            rt = [r if r in ("err", "none") else "err"]
        scn = {"g": "lit", "op": "literal", "tok": [ord(c) for c in it["tok"]], "form": it["form"], "entry": it["entry"]}
        ev = dict(scn, m=m, p=p, rt=rt, st="ok", pan=[])
        events.append((ev, set(scn.keys())))
    res = runner.Result()
    runner.run_pipeline("C19", {}, tier, seed, res, pre_events=events, neg_skip=("p", "rt"), workdir=workdir)
    nerr = sum(1 for ev, _ in events if ev["m"] == ["error"])
    nexp = sum(1 for ev, _ in events if ev["m"][0] in ("U", "B"))
    extra = {"programs": len(events), "disagreements_checked": len(events),
             "explanation": "each literal token is a one-function program compiled inside and outside the macro",
             "observed": {"expanded": nexp, "rejected": nerr, "passed_through": len(events) - nexp - nerr}}
    return runner.finish("C19", tier, seed, res, t0, LEVEL, RULE, vlib.DEFAULT_ASSUMPTIONS + [
        "rustc's JSON diagnostics attribute each compile error to the source line of the probe function that caused it"],
        extra_cov=extra, evidence_name="C19_replay" if replay else None)
