"""C13 pow, log, root."""
from ..vlib import WIDTHS, tobytes, values, nlimbs, boundary_values, rand_value

BINS = ["ux_math"]
PIPE = {"hang_secs": 30}
RULE = ("all (a,e), (v,b) at BITS<=6 and all (v,d) with d in 0..BITS+2 at BITS<=8 (exhaustive, incl. widths 1..3 "
        "where 2 and 10 do not fit); otherwise perfect powers b^k and b^k+-1 for b in {2,3,10,2^32-1,2^32,2^32+1,"
        "2^64-1,...} and every k that fits, values on f64 rounding edges (top bits 2^63+small, long 1-runs), degrees "
        "{2,3,5,63,64,65,BITS-1,BITS,BITS+1,BITS+2,usize::MAX}, the documented slow case (degree 196 at 256 bits), "
        "boundary and random values; a hang (no progress for 30 s) is an event; a case is one distinct (width, operands)")


def perfect_powers(bits, rng, per_base):
    mx = (1 << bits) - 1
    out = []
    for b in [2, 3, 5, 7, 10, 255, 256, 2**16 - 1, 2**16 + 1, 2**32 - 1, 2**32, 2**32 + 1, 2**63, 2**64 - 1, 2**64, 2**64 + 1,
              rng.getrandbits(70) | 1, rng.getrandbits(20) | 1]:
        if b > mx or b < 2:
            continue
        ks = []
        k, p = 1, b
        while p <= mx:
            ks.append((k, p))
            k += 1
            p *= b
        pick = ks if len(ks) <= per_base else ks[:2] + ks[-3:] + rng.sample(ks, per_base - 5)
        for k, p in pick:
            for v in (p - 1, p, p + 1):
                if 0 < v <= mx:
                    out.append((v, b, k))
    return out


def scenarios(tier, rng):
    quick = tier == "quick"
    sc = []

    def P(bits, a, e):
        sc.append({"g": "math", "op": "pow", "bits": bits, "a": tobytes(a), "e": tobytes(e)})

    def Lg(bits, v, b):
        sc.append({"g": "math", "op": "log", "bits": bits, "a": tobytes(v), "b": tobytes(b)})

    def L2(bits, v):
        sc.append({"g": "math", "op": "log210", "bits": bits, "a": tobytes(v)})

    def R(bits, v, d):
        sc.append({"g": "math", "op": "root", "bits": bits, "a": tobytes(v), "d": tobytes(d)})

    for bits in WIDTHS:
        mx = (1 << bits) - 1
        if bits <= 8:
            r = range(1 << bits)
            if bits <= 6:
                for a in r:
                    for e in r:
                        P(bits, a, e)
                        Lg(bits, a, e)
            for v in r:
                L2(bits, v)
                for d in range(0, bits + 3):
                    R(bits, v, d)
            if bits <= 6:
                continue
        # every power of ten of the width, with its two neighbours (log10 / checked_log10; the base-10 contract is cheap): an
        # estimate of the decimal logarithm from the bit length goes wrong at isolated bit lengths only (e.g. 681, 877, 1166)
        if bits >= 4:
            step = 1 if (bits <= 1100 or not quick) else 3
            k = rng.randrange(0, step)
            while 10 ** k <= mx:
                for v in (10 ** k - 1, 10 ** k, 10 ** k + 1):
                    if 0 < v <= mx:
                        L2(bits, v)
                k += step
        pp = perfect_powers(bits, rng, 6 if quick else 30)
        if bits > 1100:
            pp = rng.sample(pp, 8 if quick else 30)
        elif quick and len(pp) > 150:
            pp = rng.sample(pp, 150)
        vals = values(bits, rng, 4 if quick else 30)
        if bits > 576:
            vals = vals[:3] + vals[-3:] + rng.sample(vals, 4)
        # f64 rounding edges: top 64 bits = 2^63 + small, long one-runs
        edges = []
        for bl in {bits, bits - 1, max(bits // 2, 1), 65, 64, 54, 53}:
            if 1 <= bl <= bits:
                edges += [(1 << (bl - 1)) + 1, (1 << bl) - 1, ((1 << bl) - 1) ^ 1, (1 << (bl - 1)) | ((1 << max(bl - 53, 0)) - 1)]
        edges = [v & mx for v in edges if v & mx]
        # pow
        for v, b, k in pp:
            P(bits, b, k)
            P(bits, b, k + 1)
        small_e = [0, 1, 2, 3, 5, 63, 64, 65, bits - 1, bits, bits + 1]
        for a in ([0, 1, 2, 3, mx, mx - 1, (1 << (bits // 2)) & mx, ((1 << (bits // 2)) + 1) & mx, ((1 << (bits // 2)) - 1) & mx]
                  + [rand_value(rng, bits) for _ in range(2 if quick else 10)]):
            for e in small_e:
                if 0 <= e <= mx:
                    P(bits, a & mx, e)
        # exponents of about one limb against small bases, power-of-two bases in particular: a shortcut (2^k)^e = 1 << (k e)
        # computes k * e in a machine word, which wraps for e in [2^64 / k, 2^64) (seed S8-A); the exponents sit at 2^64 / k +- 1
        # for every k that fits, and at 2^32, 2^63, 2^64 +- 1.  (64 squarings each: cheap for the specification.)
        if 8 <= bits <= 576:
            ks = [k for k in (1, 2, 3, 4, 5, 7, 8, 16, 31, 32, 33, 63, 64, bits - 1) if 0 < k < bits]
            if quick:
                ks = ks[:4] + rng.sample(ks[4:], min(3, len(ks) - 4))
            for k in ks:
                es = {(1 << 64) // k - 1, (1 << 64) // k, (1 << 64) // k + 1, ((1 << 64) + k - 1) // k, 1 << 63, (1 << 64) - 1,
                      1 << 64, (1 << 64) + 1, 1 << 32, (1 << 32) + 1, ((1 << 64) + 2) // 3, (1 << 62) + 1}
                es = sorted(e for e in es if e <= mx)
                if quick:
                    es = rng.sample(es, min(len(es), 5))
                for e in es:
                    P(bits, 1 << k, e)
                if es:
                    P(bits, ((1 << k) + 1) & mx, rng.choice(es))
                    P(bits, ((1 << k) - 1) & mx or 3, rng.choice(es))
            for b in (3, 10):
                for e in (1 << 63, (1 << 64) - 1, 1 << 64):
                    if e <= mx:
                        P(bits, b, e)
            # exponents of EVERY bit length up to a limb and a bit (2^k - 1, 2^k, 2^k + 1): whatever size class a shortcut keys on
            kk = list(range(1, 67)) + [127, 128, 129]
            if quick:
                kk = rng.sample(kk, 5) + [32, 64]
            for k in kk:
                for e in ((1 << k) - 1, 1 << k, (1 << k) + 1):
                    if 0 < e <= mx:
                        P(bits, rng.choice([2, 3, mx, (1 << (bits // 2)) | 1]), e)
        if bits <= (128 if quick else 320):
            for _ in range(3 if quick else 10):
                P(bits, rand_value(rng, bits) | 1, rand_value(rng, bits))     # odd base, full-width exponent
            P(bits, 2, mx)
            P(bits, mx, mx)
            P(bits, 1, mx)
            P(bits, 0, mx)
        # log
        for v, b, k in pp:
            Lg(bits, v, b)
        for v in vals[:: max(1, len(vals) // (12 if quick else 60))] + edges[:6]:
            for b in (0, 1, 2, 3, 10, 16, mx, min(v, mx), min(v + 1, mx), max(v - 1, 0), (1 << 32) & mx, rng.getrandbits(min(bits, 40)) + 2,
                      ((1 << rng.choice([8, 16, 31, 32, 33, 63, 64, 65])) + rng.choice([-1, 0, 1])) & mx):
                if b <= mx:
                    Lg(bits, v, b)
        for v in set(vals + edges + [p[0] for p in pp if p[1] in (2, 10)]):
            L2(bits, v)
        # root
        degs = sorted({1, 2, 3, 5, 7, 63, 64, 65, bits - 1, bits, bits + 1, bits + 2, 2**32, 2**64 - 1, 0})
        rootvals = set(edges[:8] + vals[:: max(1, len(vals) // (8 if quick else 40))] + [0, 1, mx, mx - 1])
        if bits > 1100:
            rootvals = {mx, 1, rand_value(rng, bits), edges[0]}
            degs = [1, 2, 3, 64, bits - 1, bits, 0]
        for v in rootvals:
            for d in degs:
                if d >= 0:
                    R(bits, v, d)
        for v, b, k in pp[:: 1 if not quick else 2]:
            if bits <= 1100 or k <= 3:
                R(bits, v, k)
        if bits == 256:
            R(bits, 0x215f07147d573ef203e1f268ab1516d3f294619db820c5dfd0b334e4d06320b7, 196)
    return {"ux_math": sc}
