"""C06 bitwise logic, bit access, bit counting."""
from ..vlib import WIDTHS, tobytes, values, pairs, nlimbs, boundary_values, rand_value

BINS = ["ux_bits"]
RULE = ("all values (x all second operands, x all indices 0..BITS+64) at BITS<=6 (exhaustive); at the other widths "
        "boundary values (0, MAX, 2^k, 2^k-1, one zero / one set bit at every limb boundary +-1, zero top limb) and "
        "random values; indexed accessors with all indices in [0, BITS+64] at widths <=257 and boundary indices "
        "above; a case is one distinct (width, value[, operand | index])")


def scenarios(tier, rng):
    quick = tier == "quick"
    sc = []
    for bits in WIDTHS:
        if bits <= 6:
            vs = list(range(1 << bits))
            ps = [(a, b) for a in vs for b in vs]
            idx = list(range(0, bits + 65))
            ivs = vs
        else:
            vs = values(bits, rng, 10 if quick else 80)
            ps = pairs(bits, rng, (120 if quick else 1200) if bits <= 1100 else 30)
            if bits <= 257:
                idx = list(range(0, bits + 65))
            else:
                idx = sorted({0, 1, 7, 8, 63, 64, 65, bits // 8 - 1, bits // 8, bits // 8 + 1, (bits + 7) // 8 - 1,
                              (bits + 7) // 8, bits - 1, bits, bits + 1, bits + 63, bits + 64, 2**32, 2**63, 2**64 - 1}
                             | {rng.randrange(0, bits) for _ in range(8 if quick else 60)})
            ivs = rng.sample(vs, min(len(vs), 5 if quick else 20)) + [0, (1 << bits) - 1]
            if quick and bits > 72:
                near = {i for i in idx if i % 64 in (0, 1, 63) or i % 8 in (0, 7) and i < 80 or abs(i - bits) <= 2
                        or abs(i - (bits + 7) // 8) <= 1}
                idx = sorted(near | set(idx[:: 9]))
        for a in vs:
            sc.append({"g": "bits", "op": "bitq", "bits": bits, "a": tobytes(a)})
        for a, b in ps:
            sc.append({"g": "bits", "op": "logic", "bits": bits, "a": tobytes(a), "b": tobytes(b)})
        for a in ivs:
            for i in idx + ([2**40, 2**64 - 1] if bits <= 257 else []):
                sc.append({"g": "bits", "op": "bitidx", "bits": bits, "a": tobytes(a), "i": tobytes(i)})
    return {"ux_bits": sc}
