"""C07 integer, limb-slice and Uint-to-Uint conversions."""
from ..vlib import WIDTHS, tobytes, values, nlimbs, boundary_values, rand_value, LIMB_ALPHABET

BINS = ["ux_conv"]
RULE = ("for every (primitive type T, width) pair: all 2^k boundaries of both sides (0,1,2^k-1,2^k,2^k+1 for k in "
        "{BITS-1,BITS,width(T)-1,width(T),7,8,15,16,31,32,63,64,127}) in T's range, negatives -1,-2^k,T::MIN, all "
        "i8/u8 values at BITS<=8, random values; Uint->T for the same boundaries at all widths; Uint->Uint over 45 "
        "(source,target) width pairs with classes {0,1,2^dst-1,2^dst,MAX_src,boundary,random}; limb slices of length "
        "0..LIMBS+2 from the limb alphabet with non-zero limbs only beyond LIMBS / only above MASK; a case is one "
        "distinct (width(s), type, value)")

UNSIGNED = {"bool": 1, "u8": 8, "u16": 16, "u32": 32, "u64": 64, "usize": 64, "u128": 128}
SIGNED = {"i8": 8, "i16": 16, "i32": 32, "i64": 64, "isize": 64, "i128": 128}

UU_PAIRS = [(0, 0), (0, 1), (1, 0), (0, 64), (64, 0), (1, 1), (1, 2), (2, 1), (7, 8), (8, 7), (8, 8), (63, 64), (64, 63),
            (64, 64), (64, 65), (65, 64), (65, 65), (65, 127), (127, 65), (64, 128), (128, 64), (127, 128), (128, 127),
            (128, 129), (129, 128), (129, 192), (192, 129), (100, 250), (250, 100), (250, 256), (256, 250), (255, 257),
            (257, 255), (256, 256), (256, 512), (512, 256), (60, 250), (250, 60), (13, 4096), (4096, 13), (1024, 1100),
            (1100, 1024), (4096, 4096), (521, 64), (64, 521)]


def int_boundaries(bits, w):
    ks = {bits - 1, bits, w - 1, w, 7, 8, 15, 16, 31, 32, 63, 64, 127, 0, 1}
    vs = {0, 1, 2, 3}
    for k in ks:
        if k >= 0:
            vs.update({(1 << k) - 1, 1 << k, (1 << k) + 1})
    return vs


def scenarios(tier, rng):
    quick = tier == "quick"
    sc = []
    for bits in WIDTHS:
        for t, w in list(UNSIGNED.items()) + list(SIGNED.items()):
            signed = t in SIGNED
            hi = (1 << (w - 1)) - 1 if signed else (1 << w) - 1
            lo = -(1 << (w - 1)) if signed else 0
            vs = {v for v in int_boundaries(bits, w)}
            vs.update({hi, hi - 1})
            if signed:
                vs.update({-v for v in int_boundaries(bits, w)})
                vs.update({lo, lo + 1, -1, -2})
            for _ in range(3 if quick else 25):
                vs.add(rng.randrange(lo, hi + 1))
                vs.add(rng.randrange(lo, hi + 1) >> rng.randrange(0, w))
            if w == 8 and bits <= 9:
                vs.update(range(lo, hi + 1))
            for v in sorted(v for v in vs if lo <= v <= hi):
                sc.append({"g": "conv", "op": "from_int", "bits": bits, "t": t, "sg": v < 0, "v": tobytes(abs(v))})
            # Uint -> T
            m = (1 << bits) - 1
            avs = {v for v in int_boundaries(bits, w) if v <= m}
            avs.update({m, m >> 1, 0})
            if bits <= 6:
                avs.update(range(1 << bits))
            else:
                for _ in range(3 if quick else 25):
                    avs.add(rand_value(rng, bits))
                    avs.add(rand_value(rng, bits) & ((1 << min(bits, w + 1)) - 1))
            for a in sorted(v for v in avs if 0 <= v <= m):
                sc.append({"g": "conv", "op": "to_int", "bits": bits, "t": t, "a": tobytes(a)})
        # limb slices
        L = nlimbs(bits)
        mask = ((1 << bits) - 1) >> (64 * (L - 1)) if L else 0
        for ln in range(0, L + 3):
            cands = []
            for rep in range(6 if quick else 40):
                xs = [rng.choice(LIMB_ALPHABET + [rng.getrandbits(64)]) for _ in range(ln)]
                cands.append(xs)
            base = [rng.getrandbits(64) for _ in range(ln)]
            if ln >= L and L > 0:
                inr = list(base)
                inr[L - 1] &= mask
                for i in range(L, ln):
                    inr[i] = 0
                cands.append(list(inr))                       # in range
                x = list(inr); x[L - 1] = mask; cands.append(x)     # exactly MAX top limb
                if mask != 2**64 - 1:
                    x = list(inr); x[L - 1] = mask + 1; cands.append(x)   # one above the mask
                    x = list(inr); x[L - 1] |= 1 << 63; cands.append(x)
                for i in range(L, ln):
                    x = list(inr); x[i] = 1; cands.append(x)        # non-zero only beyond LIMBS
                    x = list(inr); x[i] = 1 << 63; cands.append(x)
            cands.append([0] * ln)
            cands.append([2**64 - 1] * ln)
            if bits > 1100:
                cands = cands[: 6] + cands[-4:]
            for xs in cands:
                sc.append({"g": "conv", "op": "limbs", "bits": bits, "xs": [tobytes(x) for x in xs]})
        sc.append({"g": "conv", "op": "consts", "bits": bits})
    for (bs, bd) in UU_PAIRS:
        ms = (1 << bs) - 1
        vs = {0, 1, ms, ms >> 1, (1 << bd) - 1, 1 << bd, (1 << bd) + 1, (1 << bd) >> 1, ((1 << bd) - 1) ^ 1}
        vs.update(boundary_values(bs)[:: max(1, len(boundary_values(bs)) // (10 if quick else 60))])
        for _ in range(6 if quick else 60):
            vs.add(rand_value(rng, bs))
            vs.add(rand_value(rng, bs) & ((1 << min(bs, bd + 1)) - 1))
        for a in sorted(v for v in vs if 0 <= v <= ms):
            sc.append({"g": "conv", "op": "uu", "bits": bs, "bits2": bd, "a": tobytes(a)})
    return {"ux_conv": sc}
