"""C10 modular arithmetic."""
from ..vlib import WIDTHS, tobytes, values, nlimbs, boundary_values, rand_value
from .. import witness as W

BINS = ["ux_math"]
RULE = ("all (a,b,m) at BITS<=4 and all (a,e,m) at BITS<=3 (exhaustive); otherwise moduli {0,1,2,3,2^k,2^k+-1,"
        "2^BITS-1,2^BITS-2, one-limb, half-width, full-width with all-ones low limbs, random} x operands {>=m, m-1, "
        "MAX, boundary, random} incl. sums/products overflowing BITS; exponents 0,1,2,2^k,2^k-1 mostly <=16 bit, a few "
        "full width at <=256 bit, and exponents spanning 2-4 limbs, sparse (2^64, 2^128 + 5, a zero limb below a non-zero one) and dense, "
        "against small moduli; inv_mod on coprime and non-coprime pairs incl. pairs sharing a multi-limb factor whose low limb is 1 "
        "(2^64 + 1, 2^128 + 1); quotient / cofactor witnesses from Python "
        "integers; a case is one distinct (width, operands)")


def moduli(bits, rng, n):
    if bits == 0:
        return [0]
    mx = (1 << bits) - 1
    ms = {0, 1, 2, 3, mx, mx - 1, (mx >> 1) + 1, mx >> 1}
    for k in {1, 7, 31, 32, 63, 64, 65, bits // 2, bits - 1}:
        if 0 < k < bits:
            ms.update({1 << k, (1 << k) - 1, (1 << k) + 1})
    L = nlimbs(bits)
    for ln in range(1, L + 1):
        top = rng.getrandbits(64) | 1 << 63
        ms.add(((top << (64 * (ln - 1))) | ((1 << (64 * (ln - 1))) - 1)) & mx)
        ms.add(rng.getrandbits(64 * ln) & mx)
    while len(ms) < min(n, 1 << min(bits, 20)):
        ms.add(rand_value(rng, bits))
    return sorted(ms)


def scenarios(tier, rng):
    quick = tier == "quick"
    sc = []

    def modular(bits, a, b, m):
        sc.append({"g": "math", "op": "modular", "bits": bits, "a": tobytes(a), "b": tobytes(b), "m": tobytes(m),
                   "w": W.modular_witness(a, b, m)})

    def powmod(bits, a, e, m):
        sc.append({"g": "math", "op": "powmod", "bits": bits, "a": tobytes(a), "e": tobytes(e), "m": tobytes(m),
                   "w": W.powmod_witness(a, e, m)})

    def invmod(bits, a, m):
        sc.append({"g": "math", "op": "invmod", "bits": bits, "a": tobytes(a), "m": tobytes(m),
                   "w": W.invmod_witness(a, m)})

    for bits in WIDTHS:
        if bits > 1100:
            continue
        mx = (1 << bits) - 1
        if bits <= 4:
            r = range(1 << bits)
            for a in r:
                for b in r:
                    for m in r:
                        modular(bits, a, b, m)
            for a in r:
                for m in r:
                    invmod(bits, a, m)
            if bits <= 3:
                for a in r:
                    for e in r:
                        for m in r:
                            powmod(bits, a, e, m)
            continue
        nm = (10 if quick else 40) if bits <= 576 else 4
        ms = moduli(bits, rng, nm)
        if len(ms) > nm:
            ms = ms[:4] + ms[-3:] + rng.sample(ms[4:-3], nm - 7) if nm >= 8 else rng.sample(ms, nm)
        for m in ms:
            ops = {0, 1, mx, mx - 1, m, max(m - 1, 0), min(m + 1, mx), (m * 2) & mx, mx >> 1}
            ops = sorted(ops)
            prs = [(a, b) for a in ops for b in ops]
            prs = rng.sample(prs, min(len(prs), 10 if quick else 40))
            prs += [(rand_value(rng, bits), rand_value(rng, bits)) for _ in range(4 if quick else 30)]
            prs += [(mx, mx), (max(m - 1, 0), max(m - 1, 0)), (mx, 1)]
            for a, b in dict.fromkeys(prs):
                modular(bits, a, b, m)
            for a in {0, 1, 2, max(m - 1, 0), mx, rand_value(rng, bits), rand_value(rng, bits) | 1, m >> 1, (m >> 1) + 1}:
                invmod(bits, a, m)
            if m > 2 and m % 2 == 0:
                invmod(bits, rng.randrange(0, mx) & ~1 & mx, m)
        # moduli that are an exact power of two (and its two neighbours) at EVERY limb boundary +- 1 (thorough: every exponent): a
        # masking fast path for such moduli is selected by the size of the exponent and is wrong for one exponent only (seed T7-A:
        # 2^64 in types wider than a limb)
        ks = {1, 2, bits - 1, bits - 2, 8, 16, 31, 32, 33}          # word sizes a native fast path might be keyed on
        for lb in range(64, bits + 1, 64):
            ks |= {lb - 1, lb, lb + 1}
        if not quick:
            ks |= set(range(1, bits))
        for k in sorted(k for k in ks if 0 < k < bits):
            p2 = 1 << k
            hi = (mx >> k) << k
            for a, b in ((mx, mx), ((p2 + 1) & mx, (p2 - 1)), (rand_value(rng, bits) | hi, rand_value(rng, bits) | 1), (p2 - 1, p2 - 1)):
                modular(bits, a, b, p2)
            modular(bits, mx, mx - 1, p2 - 1)
            modular(bits, mx - 2, mx, (p2 + 1) & mx)
            if bits <= 256 or k % 64 == 0:
                powmod(bits, rng.choice([3, mx, rand_value(rng, bits) | 1]), rng.choice([2, 3, 5, 65537 & mx]), p2)
            # moduli strictly inside (2^k, 2^(k+1)) with the largest residue squared: a native-word fast path selected by the bit
            # length of the modulus overflows its word only there (seed S7-B: bit_len <= 33 for a 64-bit product)
            if k in (8, 16, 31, 32, 33, 63, 64, 65) and k + 1 < bits:
                for m in (p2 + 15, (p2 << 1) - 1, p2 + (p2 >> 1) + 1):
                    if 2 < m <= mx:
                        powmod(bits, m - 1, 2, m)
                        powmod(bits, m - 2, 3, m)
                        modular(bits, m - 1, m - 1, m)
        # value and modulus sharing a LARGE factor whose low limb is 1 (2^64 + 1, 2^128 + 1, k 2^64 + 1): the gcd the loop ends with
        # is then a multi-limb number that looks like 1 in its lowest limb; and coprime pairs built the same way
        if bits >= 129:
            for f in [(1 << 64) + 1, (1 << 128) + 1, (rng.getrandbits(40) << 64) + 1, (1 << 64) + (1 << 63) + 1]:
                if f.bit_length() + 8 > bits:
                    continue
                room = bits - f.bit_length()
                for _ in range(2 if quick else 8):
                    x = rng.getrandbits(max(room - rng.randrange(0, 4), 2)) | 1
                    y = rng.getrandbits(max(room - rng.randrange(0, 4), 2)) | 1
                    if f * x <= mx and f * y <= mx and f * y >= 2:
                        invmod(bits, f * x, f * y)
                        invmod(bits, f * x + 1, f * y)
        # pow_mod
        es = {0, 1, 2, 3, 4, 255, 256, 65535, 65536 & mx, 2**16 - 1}
        es = sorted(x for x in es if x <= mx)
        npm = (10 if quick else 60) if bits <= 256 else ((3 if quick else 12) if bits <= 576 else 1)
        for _ in range(npm):
            m = rng.choice(ms)
            a = rng.choice([rand_value(rng, bits), mx, max(m - 1, 0), 2, 0])
            e = rng.choice(es + [rng.getrandbits(min(bits, 12))])
            powmod(bits, a, e, m)
        # exponents spanning several limbs, sparse (a zero limb below a non-zero one) and dense, with SMALL moduli so that the
        # per-step witnesses stay cheap: the exponent walk must look at every limb
        if 65 <= bits <= 576:
            long_es = {1 << 64, (1 << 64) + 1, 3 << 64, (1 << 64) | (1 << 63), (1 << (bits - 1)) & mx, ((1 << (bits - 1)) | 5) & mx,
                       (1 << 64) - 1, mx if bits <= 192 else (mx >> (bits - 150))}
            if bits > 128:
                long_es |= {1 << 128, (1 << 128) + 5, (1 << 128) | (1 << 64), 7 << 128 if bits > 131 else 1 << 128}
            if bits > 192:
                long_es |= {1 << 192, (1 << 192) | 9}
            small_ms = [3, 65537, 1000003, (1 << 61) - 1]
            for e in sorted(x for x in long_es if 0 < x <= mx):
                if quick and rng.random() < 0.4 and e not in (1 << 64, (1 << 128) + 5):
                    continue
                m = rng.choice(small_ms)
                powmod(bits, rng.choice([2, 3, rand_value(rng, bits), mx]), e, m)
        # small bases with exponents around the point where base^e first reaches 2^BITS: a shortcut through the plain (wrapping)
        # power is right below that point and wrong from it on, and a bound derived from floor(log2 base) puts it too high
        if 8 <= bits <= 576:
            import math
            for base in ((3, 5, 7, 10, 255, 65537) if not quick else (3, 10, rng.choice([5, 6, 7, 255, 65537]))):
                e0 = int(bits / math.log2(base))                       # base^e0 <= 2^BITS < base^(e0 + 1), give or take one
                e1 = bits // (base.bit_length() - 1)                   # what a floor-log bound would allow
                for e in dict.fromkeys([e0 - 1, e0, e0 + 1, e0 + 2, (e0 + e1) // 2, e1 - 1, e1, e1 + 1]):
                    if 0 < e <= mx and base <= mx:
                        powmod(bits, base, e, rng.choice([mx, mx - rng.getrandbits(min(bits, 20)), rng.choice(ms), (1 << (bits - 1)) + 1]))
        for m in (0, 1, 2, mx):
            powmod(bits, mx, 3 & mx, m)
            powmod(bits, 0, 0, m)
        if bits <= (128 if quick else 256):
            for _ in range(1 if quick else 4):
                powmod(bits, rand_value(rng, bits), rand_value(rng, bits), rng.choice(ms[3:]))
    return {"ux_math": sc}
