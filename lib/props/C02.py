"""C02 multiplication: wrapping, flag, widening product, ring inverse, iterator product."""
from ..vlib import WIDTHS, tobytes, pairs, values, nlimbs, boundary_values, rand_value

BINS = ["ux_arith"]
RULE = ("all operand pairs at BITS<=6 (exhaustive); at the other widths boundary-class products including "
        "addmul-shaped operands (zero low / high / middle limbs, all-ones limbs, single set bit) and seeded "
        "random limbs; every pair through overflowing/checked/saturating/wrapping_mul, 6 operator forms and "
        "inv_ring of the first operand; widening_mul over a table of (BITS, BITS_RHS) pairs; a case is one "
        "distinct (width(s), a, b)")

# (BITS, BITS_RHS) pairs compiled into the executor for widening_mul
WIDE_PAIRS = [(0, 0), (0, 64), (64, 0), (1, 1), (1, 63), (63, 1), (7, 9), (32, 32), (63, 65), (64, 64), (65, 63),
              (64, 128), (128, 64), (100, 28), (127, 129), (128, 128), (129, 127), (192, 64), (64, 192),
              (250, 6), (256, 256), (255, 257), (256, 64), (64, 256), (320, 192), (384, 128), (512, 512),
              (1, 255), (13, 500), (521, 55)]


def shaped(bits, rng):
    """addmul-shaped operands: zero limbs at either end or in the middle."""
    L = nlimbs(bits)
    m = (1 << bits) - 1
    out = []
    if L >= 3:
        for _ in range(6):
            lo = rng.getrandbits(64) | 1
            hi = (rng.getrandbits(64) | (1 << 63))
            out.append((lo | (hi << (64 * (L - 1)))) & m)
            k = rng.randrange(1, L - 1)
            out.append(((2**64 - 1) << (64 * k)) & m)
    for k in range(0, bits, max(1, bits // 9)):
        out.append(1 << k)
    return out


def zero_limb_pairs(bits, rng, quick):
    """Operands with ka / kb low zero limbs, the second with one more zero limb in its interior (or none): the schoolbook
    row loop trims low zeros of both operands, and a row whose multiplier limb is zero may be skipped - wrong only when the
    remaining window is (nearly) exhausted at that row, i.e. for particular (ka, kb, position) triples at 4 and more limbs."""
    L = nlimbs(bits)
    if L < 3 or bits > 1100:
        return []
    m = (1 << bits) - 1
    triples = [(ka, kb, j) for ka in range(L) for kb in range(L) for j in [None] + list(range(kb + 1, L))]
    if len(triples) > (260 if quick else 2000):
        near = [t for t in triples if t[0] + t[1] >= L - 3 and t[2] is not None]
        triples = rng.sample(near, min(len(near), 160 if quick else 1500)) + rng.sample(triples, 60 if quick else 500)
    if bits > 600 and quick:
        triples = rng.sample(triples, 50)
    out = []
    for ka, kb, j in triples:
        a = b = 0
        for i in range(ka, L):
            a |= (rng.getrandbits(64) | 1) << (64 * i)
        for i in range(kb, L):
            if i != j:
                b |= rng.choice([rng.getrandbits(64) | 1, 1, 2**64 - 1]) << (64 * i)
        a, b = a & m, b & m
        out += [(a, b), (b, a)]
    return out


def scenarios(tier, rng):
    quick = tier == "quick"
    sc = []
    for bits in WIDTHS:
        if bits <= 6:
            ps = pairs(bits, rng, 0)
        else:
            if bits <= 128:
                n = 220 if quick else 2000
            elif bits <= 576:
                n = 90 if quick else 900
            elif bits <= 1100:
                n = 24 if quick else 160
            else:
                n = 0
            ps = pairs(bits, rng, n)
            sh = shaped(bits, rng)
            ps += zero_limb_pairs(bits, rng, quick)
            if bits <= 1100:
                for i in range(min(len(sh), 10 if quick else 40)):
                    ps.append((sh[i], rng.choice(sh)))
                    ps.append((rand_value(rng, bits), sh[i]))
            else:
                # 4096 bit: full x short operands are cheap for the specification; full x full is ~5 s each
                m = (1 << bits) - 1
                short = [0, 1, 2**64 - 1, 2**64, 2**128 - 1, rng.getrandbits(100)]
                for s in short:
                    ps.append((m, s))
                    ps.append((s << (bits - 130), rng.getrandbits(60) | 1))
                    ps.append((rand_value(rng, bits), s))
                ps.append((m, m))
                if not quick:
                    ps.append((rand_value(rng, bits) | 1, rand_value(rng, bits)))
                    ps.append((m - 1, (m >> 1) + 1))
        for a, b in dict.fromkeys(ps):
            sc.append({"g": "arith", "op": "mul", "bits": bits, "a": tobytes(a), "b": tobytes(b)})
        # iterator products are in the "sum" event (validated for C01 and C02 alike)
        if bits <= 576:
            vs = values(bits, rng, 6)
            for n in range(0, 5):
                for rep in range(2 if quick else 8):
                    xs = [rng.choice(vs) for _ in range(n)]
                    sc.append({"g": "arith", "op": "sum", "bits": bits, "xs": [tobytes(x) for x in xs]})
    for (ba, bb) in WIDE_PAIRS:
        va = values(ba, rng, 4 if quick else 20)
        vb = values(bb, rng, 4 if quick else 20)
        ps = [(a, b) for a in va[:: max(1, len(va) // 8)] for b in vb[:: max(1, len(vb) // 8)]]
        ps += [(rng.choice(va), rng.choice(vb)) for _ in range(20 if quick else 200)]
        ps += [((1 << ba) - 1, (1 << bb) - 1)]
        for a, b in dict.fromkeys(ps):
            sc.append({"g": "arith", "op": "wmul", "bits": ba, "bits2": bb, "a": tobytes(a), "b": tobytes(b)})
    return {"ux_arith": sc}
