"""C12 gcd, lcm, extended gcd (Uint methods) and Lehmer matrices (kernel events, see kernels group)."""
from ..vlib import WIDTHS, tobytes, values, nlimbs, boundary_values, rand_value, pairs
from .. import witness as W

BINS = ["ux_math"]
RULE = ("all pairs at BITS<=6 (exhaustive); otherwise consecutive Fibonacci-like pairs scaled to the width (all "
        "quotients 1), pairs built by running the continued fraction backwards with quotients from {1,2,2^31,2^32,2^33,"
        "huge}, a=b, a=b+-1, common factors 2^k and large odd factors (g*x, g*y with coprime x,y), values whose leading "
        "64/128 bits coincide, boundary and random pairs; Bezout witnesses from Python integers; a case is one distinct "
        "(width, a, b)")


def fib_pairs(bits):
    out = []
    a, b = 1, 1
    while b.bit_length() <= bits:
        a, b = b, a + b
        out.append((b, a)) if b.bit_length() <= bits else None
    return out


def cf_backwards(bits, rng, qs_alphabet):
    """Build (a, b) from a random quotient sequence, largest values that still fit."""
    a, b = 1, 0
    for _ in range(4000):
        q = rng.choice(qs_alphabet)
        na = q * a + b
        if na.bit_length() > bits:
            break
        a, b = na, a
    return a, b


def family(bits, rng, count):
    mx = (1 << bits) - 1
    out = []
    fp = fib_pairs(bits)
    out += fp[-6:] + fp[:: max(1, len(fp) // 6)]
    for a, b in fp[-3:]:
        for s in (2, 3, 1 << 7):
            if (a * s) <= mx:
                out.append((a * s, b * s))
    alph = [[1], [1, 2], [1, 2, 3], [1, 1, 1, 2**31], [1, 2**32], [2**33, 1, 1], [1, 2, 2**31, 2**32, 2**33],
            [2**63], [2**64 - 1, 1], [1, 1, 1, 1, 2**64 + 1]]
    for al in alph:
        for _ in range(max(1, count // 40)):
            a, b = cf_backwards(bits, rng, al)
            out += [(a, b), (b, a)]
            g = rng.choice([2, 4, 1 << 20, 3, 0xffffffff, (1 << 61) - 1])
            if a * g <= mx:
                out.append((a * g, b * g))
    for _ in range(max(2, count // 20)):
        a = rand_value(rng, bits)
        out += [(a, a), (a, max(a - 1, 0)), (a, min(a + 1, mx)), (a, 0), (0, a), (a, 1), (a, a >> 1)]
        # one huge quotient
        out.append((a, rng.getrandbits(min(bits, 20)) + 1))
        # leading 64 / 128 bits coincide
        for k in (64, 128):
            if bits > k + 8:
                lowbits = a.bit_length() - k
                if lowbits > 0:
                    b = (a >> lowbits << lowbits) | rng.getrandbits(lowbits)
                    out.append((max(a, b), min(a, b)))
        # common factors
        x, y = rng.getrandbits(max(bits // 3, 1)) | 1, rng.getrandbits(max(bits // 3, 1)) | 1
        g = rng.getrandbits(max(bits // 4, 1)) | 1
        out.append((g * x & mx, g * y & mx))
        k = rng.randrange(0, max(bits // 2, 1))
        out.append(((x << k) & mx, (y << k) & mx))
    out += [(mx, mx), (mx, mx - 1), (mx, 1), (mx, 2), (0, 0), (1 << (bits - 1), mx)]
    out = [(a & mx, b & mx) for a, b in out]
    return list(dict.fromkeys(out))


def scenarios(tier, rng):
    quick = tier == "quick"
    sc = []
    for bits in WIDTHS:
        if bits <= 6:
            ps = pairs(bits, rng, 0)
        elif bits <= 1100:
            cnt = (120 if quick else 1200) if bits <= 576 else (12 if quick else 60)
            ps = family(bits, rng, cnt)
            if len(ps) > cnt:
                ps = ps[:cnt // 2] + rng.sample(ps[cnt // 2:], cnt - cnt // 2)
            ps += pairs(bits, rng, cnt // 4)[-cnt // 8:]
        else:
            ps = family(bits, rng, 10)[:4] if quick else family(bits, rng, 20)[:10]
        for a, b in dict.fromkeys(ps):
            sc.append({"g": "math", "op": "gcd", "bits": bits, "a": tobytes(a), "b": tobytes(b), "w": W.gcd_witness(a, b)})
    return {"ux_math": sc}
