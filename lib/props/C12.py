"""C12 gcd, lcm, extended gcd (Uint methods) and Lehmer matrices (kernel events, see kernels group)."""
from ..vlib import WIDTHS, tobytes, values, nlimbs, boundary_values, rand_value, pairs
from .. import witness as W

BINS = ["ux_math", "ux_kern"]
RULE = ("all pairs at BITS<=6 (exhaustive); otherwise consecutive Fibonacci-like pairs scaled to the width (all "
        "quotients 1), pairs built by running the continued fraction backwards with quotients from {1,2,2^31,2^32,2^33,"
        "huge}, a=b, a=b+-1, common factors 2^k and large odd factors (g*x, g*y with coprime x,y), values whose leading "
        "64/128 bits coincide, boundary and random pairs; Bezout witnesses from Python integers; a case is one distinct "
        "(width, a, b)")


def fib_pairs(bits):
    out = []
    a, b = 1, 1
    while b.bit_length() <= bits:
        a, b = b, a + b
        out.append((b, a)) if b.bit_length() <= bits else None
    return out


def cf_backwards(bits, rng, qs_alphabet):
    """Build (a, b) from a random quotient sequence, largest values that still fit."""
    a, b = 1, 0
    for _ in range(4000):
        q = rng.choice(qs_alphabet)
        na = q * a + b
        if na.bit_length() > bits:
            break
        a, b = na, a
    return a, b


def family(bits, rng, count):
    mx = (1 << bits) - 1
    out = []
    fp = fib_pairs(bits)
    out += fp[-6:] + fp[:: max(1, len(fp) // 6)]
    for a, b in fp[-3:]:
        for s in (2, 3, 1 << 7):
            if (a * s) <= mx:
                out.append((a * s, b * s))
    alph = [[1], [1, 2], [1, 2, 3], [1, 1, 1, 2**31], [1, 2**32], [2**33, 1, 1], [1, 2, 2**31, 2**32, 2**33],
            [2**63], [2**64 - 1, 1], [1, 1, 1, 1, 2**64 + 1]]
    for al in alph:
        for _ in range(max(1, count // 40)):
            a, b = cf_backwards(bits, rng, al)
            out += [(a, b), (b, a)]
            g = rng.choice([2, 4, 1 << 20, 3, 0xffffffff, (1 << 61) - 1])
            if a * g <= mx:
                out.append((a * g, b * g))
    for _ in range(max(2, count // 20)):
        a = rand_value(rng, bits)
        out += [(a, a), (a, max(a - 1, 0)), (a, min(a + 1, mx)), (a, 0), (0, a), (a, 1), (a, a >> 1)]
        # one huge quotient
        out.append((a, rng.getrandbits(min(bits, 20)) + 1))
        # leading 64 / 128 bits coincide
        for k in (64, 128):
            if bits > k + 8:
                lowbits = a.bit_length() - k
                if lowbits > 0:
                    b = (a >> lowbits << lowbits) | rng.getrandbits(lowbits)
                    out.append((max(a, b), min(a, b)))
        # common factors
        x, y = rng.getrandbits(max(bits // 3, 1)) | 1, rng.getrandbits(max(bits // 3, 1)) | 1
        g = rng.getrandbits(max(bits // 4, 1)) | 1
        out.append((g * x & mx, g * y & mx))
        k = rng.randrange(0, max(bits // 2, 1))
        out.append(((x << k) & mx, (y << k) & mx))
    out += [(mx, mx), (mx, mx - 1), (mx, 1), (mx, 2), (0, 0), (1 << (bits - 1), mx)]
    out = [(a & mx, b & mx) for a, b in out]
    return list(dict.fromkeys(out))


def scenarios(tier, rng):
    quick = tier == "quick"
    sc = []
    for bits in WIDTHS:
        if bits <= 6:
            ps = pairs(bits, rng, 0)
        elif bits <= 1100:
            cnt = (120 if quick else 1200) if bits <= 576 else (12 if quick else 60)
            ps = family(bits, rng, cnt)
            if len(ps) > cnt:
                ps = ps[:cnt // 2] + rng.sample(ps[cnt // 2:], cnt - cnt // 2)
            ps += pairs(bits, rng, cnt // 4)[-cnt // 8:]
        else:
            ps = family(bits, rng, 10)[:4] if quick else family(bits, rng, 20)[:10]
        for a, b in dict.fromkeys(ps):
            sc.append({"g": "math", "op": "gcd", "bits": bits, "a": tobytes(a), "b": tobytes(b), "w": W.gcd_witness(a, b)})
    return {"ux_math": sc, "ux_kern": lehmer_scenarios(tier, rng)}


B = 1 << 64


def jebelean_boundary_prefixes(rng, count):
    """Prefix pairs (a0, a1), a0 in [2^63, 2^64), built BACKWARDS from a chosen quotient sequence so that the last
    remainders sit exactly on (or one off) the boundaries of the Jebelean selection tests of from_u64_prefix:
    a3 = u3 + delta, a2 - a3 = v3 + v2 + delta, a1 - a2 = u2 + u1 + delta (and the odd-parity mirror images), and the
    two early-exit tests a2 = v2 + delta, a1 - a2 = u2 + delta.  Uniform prefixes meet these with probability ~2^-32.
    The construction only aims the generator; what the matrices must satisfy is decided by Kernels.tla."""
    LIMIT = 1 << 32
    out = []

    def run_back(qs, a2, a3):
        r_next, r = a3, a2
        for q in reversed(qs):
            r_next, r = r, q * r + r_next
        # after the loop: r = r_0, r_next = r_1
        return r, r_next

    tries = 0
    per_kind = [0, 0, 0, 0]
    while len(out) < count and tries < count * 2000:
        tries += 1
        m = rng.randrange(2, 40)
        qs = [rng.choice([1, 1, 1, 2, 2, 3, 5]) for _ in range(m)]
        # cofactors forward: k_{i+1} = k_{i-1} + q_i k_i
        ks = [(1, 0), (0, 1)]
        for q in qs:
            ks.append((ks[-2][0] + q * ks[-1][0], ks[-2][1] + q * ks[-1][1]))
        (u1, v1), (u2, v2), (u3, v3) = ks[-3], ks[-2], ks[-1]
        if max(u3, v3) >= LIMIT:
            continue
        kind = min(range(4), key=lambda k: per_kind[k]) if rng.random() < 0.7 else rng.randrange(4)
        delta = rng.choice([-1, 0, 0, 1])
        if kind == 0:
            a3 = (u3 if m % 2 == 0 else v3) + delta
            a2 = None
        elif kind == 1:
            gap = ((v3 + v2) if m % 2 == 0 else (u3 + u2)) + delta
            a3 = LIMIT - 1 - rng.randrange(0, max(min(gap, LIMIT // 2), 1))
            a2 = a3 + gap
        elif kind == 2:
            qs[-1] = 1
            ks = [(1, 0), (0, 1)]
            for q in qs:
                ks.append((ks[-2][0] + q * ks[-1][0], ks[-2][1] + q * ks[-1][1]))
            (u1, v1), (u2, v2), (u3, v3) = ks[-3], ks[-2], ks[-1]
            a3 = ((u2 + u1) if m % 2 == 0 else (v2 + v1)) + delta
            a2 = None
        else:
            a3 = rng.randrange(0, LIMIT)
            a2 = None
        if not (0 <= a3 < LIMIT):
            continue
        if a2 is None:
            A, _ = run_back(qs, 1, 0)
            C, _ = run_back(qs, 0, 1)
            if A == 0:
                continue
            a2 = ((1 << 63) + rng.getrandbits(62) - C * a3) // A
        if a2 < LIMIT or a2 <= a3:
            continue
        a0, a1 = run_back(qs, a2, a3)
        if (1 << 63) <= a0 < (1 << 64) and a1 <= a0:
            out.append((a0, a1))
            per_kind[kind] += 1
    # early-exit tests: a2 = a0 - q a1 < LIMIT at once
    for i in range(count // 3 + 6):
        a1 = rng.randrange(LIMIT, LIMIT << 1) if i >= 6 else LIMIT + (i % 3)
        q = ((1 << 63) + rng.getrandbits(62)) // a1
        for a2 in (q - 1, q, q + 1, a1 - 1, a1 - 2, a1 - 3, 0, 1):
            if 0 <= a2 < min(LIMIT, a1):
                a0 = q * a1 + a2
                if (1 << 63) <= a0 < (1 << 64):
                    out.append((a0, a1))
    return out


def lehmer_scenarios(tier, rng):
    """LehmerMatrix::{from, from_u64, from_u64_prefix, from_u128_prefix, apply, apply_u128, compose}."""
    quick = tier == "quick"
    sc = []
    for bits in WIDTHS:
        if bits == 0 or bits > 1100:
            continue
        if bits <= 5:
            ps = [(a, b) for a in range(1 << bits) for b in range(a + 1)]
        else:
            cnt = 60 if quick else 500
            ps = family(bits, rng, cnt)
            if len(ps) > cnt:
                ps = ps[:cnt // 2] + rng.sample(ps[cnt // 2:], cnt - cnt // 2)
        for a, b in dict.fromkeys((max(a, b), min(a, b)) for a, b in ps):
            sc.append({"g": "kern", "op": "lehmer", "bits": bits, "a": tobytes(a), "b": tobytes(b)})
    # full 64-bit Euclid
    for a, b in family(64, rng, 200 if quick else 2000):
        a, b = max(a, b), min(a, b)
        sc.append({"g": "kern", "op": "klehmer64", "a": tobytes(a), "b": tobytes(b)})
    # prefix matrices, each checked on several extensions of the prefix
    def exts(k):
        full = (1 << k) - 1
        out = [[k, tobytes(0), tobytes(0)], [k, tobytes(0), tobytes(full)], [k, tobytes(full), tobytes(0)],
               [k, tobytes(full), tobytes(full)]]
        for _ in range(2):
            out.append([k, tobytes(rng.getrandbits(k)), tobytes(rng.getrandbits(k))])
        return out
    pre = []
    for a, b in family(64, rng, 300 if quick else 3000):
        a, b = max(a, b), min(a, b)
        if a == 0:
            continue
        a0 = a << (64 - a.bit_length())
        b0 = b << (64 - a.bit_length())
        pre.append((a0, b0))
    for _ in range(100 if quick else 2000):
        a0 = rng.getrandbits(64) | 1 << 63
        kind = rng.randrange(5)
        if kind == 0:
            b0 = rng.randrange(0, a0 + 1)
        elif kind == 1:
            b0 = a0 - rng.getrandbits(rng.randrange(1, 40))
        elif kind == 2:
            b0 = rng.getrandbits(rng.randrange(30, 36))       # around LIMIT = 2^32
        elif kind == 3:
            b0 = a0 // rng.randrange(1, 1 << rng.randrange(1, 33))
        else:
            b0 = (1 << 32) + rng.randrange(-3, 4)
        pre.append((a0, max(0, min(b0, a0))))
    pre += jebelean_boundary_prefixes(rng, 150 if quick else 2500)
    for a0, b0 in dict.fromkeys(pre):
        ex = exts(0)[:1] + exts(1) + exts(64) + exts(200 if not quick else 70)
        sc.append({"g": "kern", "op": "klehmer_prefix", "a": tobytes(a0), "b": tobytes(b0), "ext": ex})
    for a0, b0 in list(dict.fromkeys(pre))[:: 3]:
        lo_a, lo_b = rng.getrandbits(64), rng.getrandbits(64)
        r0, r1 = (a0 << 64) | lo_a, (b0 << 64) | lo_b
        s = rng.randrange(0, 64)
        r0 >>= s
        r1 >>= s
        if r0 >= r1:
            sc.append({"g": "kern", "op": "klehmer_prefix128", "a": tobytes(r0), "b": tobytes(r1),
                       "ext": exts(0)[:1] + exts(1) + exts(64)})
    # from_u128_prefix is public and normalises by itself: prefixes of ANY size, in particular below 2^64 and below 2^63 (the
    # callers inside the crate only ever pass a first operand with its top limb occupied)
    small = [(252, 105), (5, 3), (1, 0), (1, 1), (2, 1), (3, 2), ((1 << 63) - 1, (1 << 62) + 1), (1 << 63, 1), ((1 << 64) - 1, (1 << 64) - 2),
             (1 << 64, (1 << 64) - 1), ((1 << 32) + 1, 1 << 32), (1 << 33, (1 << 32) - 1), (10 ** 18, 10 ** 9 + 7), ((1 << 127) + 1, 1 << 126)]
    for _ in range(30 if quick else 300):
        k = rng.randrange(2, 127)
        r0 = rng.getrandbits(k) | (1 << (k - 1))
        small.append((r0, rng.randrange(0, r0 + 1)))
        small.append((r0, r0 - rng.getrandbits(rng.randrange(1, k))))
    fib = [1, 1]
    while fib[-1] < 1 << 126:
        fib.append(fib[-1] + fib[-2])
    small += [(fib[i + 1], fib[i]) for i in range(2, len(fib) - 1, 5 if quick else 1)]
    for r0, r1 in dict.fromkeys(small):
        if r0 >= r1 >= 0 and r0 > 0:
            # below 2^64 the normalised 64-bit window holds padding zeros, so the matrix is claimed for the EXACT pair only (this is
            # how LehmerMatrix::from uses it: numbers of up to 128 bits are passed whole); from 2^64 on it is a prefix matrix
            ex = exts(0)[:1] if r0 < 1 << 64 else exts(0)[:1] + exts(1) + exts(64)
            sc.append({"g": "kern", "op": "klehmer_prefix128", "a": tobytes(r0), "b": tobytes(r1), "ext": ex})
    # apply_u128 and compose on small unimodular matrices built from quotient sequences
    def cf_matrix(qs):
        m = [1, 0, 0, 1, True]
        for q in qs:
            # one Euclid step (a, b) -> (b, a - q b) :  [[0, 1], [1, -q]]
            m0, m1, m2, m3, sgn = m
            m = [m2, m3, m0 + q * m2, m1 + q * m3, not sgn]
        return m
    for _ in range(60 if quick else 600):
        qs = [rng.choice([1, 1, 2, 3, 7, 100]) for _ in range(rng.randrange(1, 12))]
        m = cf_matrix(qs)
        if max(m[:4]) >= 1 << 31:
            continue
        mj = [tobytes(m[0]), tobytes(m[1]), tobytes(m[2]), tobytes(m[3]), m[4]]
        # (a, b) whose continued fraction starts with qs, so that the matrix is valid for it
        x = rng.getrandbits(rng.randrange(20, 60)) + 2
        y = rng.randrange(0, x)
        for q in reversed(qs):
            x, y = q * x + y, x
        a, b = x, y
        if a >= 1 << 128 or rng.random() < 0.15:
            a = rng.getrandbits(rng.randrange(60, 128))
            b = rng.randrange(0, a + 1)
        sc.append({"g": "kern", "op": "kapply128", "m": mj, "a": tobytes(a), "b": tobytes(b)})
        qs2 = [rng.choice([1, 2, 5]) for _ in range(rng.randrange(1, 8))]
        m2 = cf_matrix(qs2)
        if max(m2[:4]) < 1 << 31:
            sc.append({"g": "kern", "op": "kcompose", "m1": mj,
                       "m2": [tobytes(m2[0]), tobytes(m2[1]), tobytes(m2[2]), tobytes(m2[3]), m2[4]]})
    return sc
