"""C18 floating-point conversions."""
import struct

from ..vlib import WIDTHS, tobytes, values, nlimbs, rand_value

BINS = ["ux_conv"]
# the wrapped payload of a failed float conversion is not fixed by the property
PIPE = {"neg_skip": ("wr",)}
RULE = ("float->Uint: complete product of exponent classes {0 (subnormal),1,1022,1023,1023+k for k in {1,23,24,51,52,53,"
        "54,63,64,BITS-1,BITS,BITS+1,1023},2047} x fraction classes {0,1,2^51,2^51+-1,2^52-1,patterns selecting k+1/2, odd "
        "and even integers} x sign, plus explicit odd integers in [2^52,2^53), k+1/2 for small and large k, 2^BITS-1/2, "
        "2^BITS, the largest float below 2^BITS, +-0, +-inf, NaNs, random patterns, for f64 and f32; Uint->float: ascending "
        "runs of values with tails {0,1,2^10-1,2^10 (tie),2^10+1,2^11-1} below the 53-bit (24-bit) window at bit lengths "
        "1..64,65,128,1023,1024,1025,4096 (nearness and monotonicity); a case is one distinct (width, pattern | value)")


def f64_patterns(bits, rng, nrand):
    ps = set()
    exps = {0, 1, 1022, 1023, 2047, 2046}
    for k in (1, 2, 23, 24, 51, 52, 53, 54, 63, 64, bits - 1, bits, bits + 1, 1023):
        if 0 <= 1023 + k <= 2046:
            exps.add(1023 + k)
    fracs = {0, 1, 2, 3, 1 << 51, (1 << 51) - 1, (1 << 51) + 1, (1 << 52) - 1, (1 << 52) - 2, 1 << 50, 0x5555555555555, 0xAAAAAAAAAAAAA}
    for e in exps:
        k = e - 1023
        fr = set(fracs)
        if 0 <= k <= 52:
            half = 1 << (52 - k - 1) if k < 52 else 0      # the bit selecting +1/2
            unit = 1 << (52 - k)
            for j in (0, 1, 2, 3, rng.getrandbits(max(k, 1)) if k else 0):
                base = (j * unit) & ((1 << 52) - 1)
                fr.update({base, base | half, (base | half) - 1 if base | half else 0, (base | half) + 1})
        for f in fr:
            f &= (1 << 52) - 1
            for s in (0, 1):
                ps.add((s << 63) | (e << 52) | f)
    def pat(x):
        return struct.unpack("<Q", struct.pack("<d", x))[0]
    for x in (0.0, -0.0, 0.25, 0.49999999999999994, 0.5, 0.5000000000000001, 0.75, 1.0, 1.5, 2.5, 3.5, 123.499, 123.5, -0.3, -0.5, -1.0,
              4503599627370497.0, 4503599627370495.5, 4503599627370496.0, 9007199254740991.0, 9007199254740992.0, 9007199254740993.0,
              float("inf"), float("-inf"), float("nan"), 1e300, 1.7976931348623157e308, 5e-324, 2.2250738585072014e-308):
        ps.add(pat(x))
    for k in range(52, 53):
        for j in range(0, 64):
            ps.add(pat(float((1 << 52) + 2 * j + 1)))          # odd integers in [2^52, 2^53)
    if bits <= 1023:
        two = 2.0 ** bits
        ps.update({pat(two), pat(two - 0.5) if bits <= 52 else pat(two), pat(two * 2), pat(two / 2)})
        p = pat(two)
        ps.update({p - 1, p + 1, p - 2})                        # neighbours of 2^BITS (largest float below it)
    for _ in range(nrand):
        ps.add(rng.getrandbits(64))
        e = rng.choice(sorted(exps))
        ps.add((e << 52) | rng.getrandbits(52))
    return sorted(ps)


def f32_patterns(bits, rng, nrand):
    ps = set()
    exps = {0, 1, 126, 127, 254, 255}
    for k in (1, 2, 22, 23, 24, 25, 63, 64, bits - 1, bits, bits + 1, 127):
        if 0 <= 127 + k <= 254:
            exps.add(127 + k)
    for e in exps:
        k = e - 127
        fr = {0, 1, 2, 3, 1 << 22, (1 << 22) - 1, (1 << 22) + 1, (1 << 23) - 1, 0x2AAAAA, 0x555555}
        if 0 <= k <= 23:
            half = 1 << (23 - k - 1) if k < 23 else 0
            unit = 1 << (23 - k)
            for j in (0, 1, 2, 3):
                base = (j * unit) & ((1 << 23) - 1)
                fr.update({base, base | half, max((base | half) - 1, 0), (base | half) + 1})
        for f in fr:
            f &= (1 << 23) - 1
            for s in (0, 1):
                ps.add((s << 31) | (e << 23) | f)
    for _ in range(nrand):
        ps.add(rng.getrandbits(32))
    return sorted(ps)


def runs(bits, rng, quick):
    """ascending runs of values around the rounding window"""
    out = []
    mx = (1 << bits) - 1
    bls = sorted({b for b in list(range(1, 66)) + [128, 1023, 1024, 1025, 4096, bits, bits - 1, 24, 25, 53, 54, 55] if 1 <= b <= bits})
    if quick:
        bls = [b for b in bls if b <= 4 or b in (23, 24, 25, 26, 52, 53, 54, 55, 63, 64, 65, 128, 1023, 1024, 1025, 4096, bits, bits - 1)]
    for bl in bls:
        for win in (53, 24):
            t = bl - win
            tops = [1 << (bl - 1), (1 << bl) - 1, (1 << (bl - 1)) | rng.getrandbits(bl - 1)]
            for top in tops:
                if t <= 0:
                    run = sorted({top, max(top - 1, 0), min(top + 1, mx)})
                else:
                    base = top >> t << t
                    h = 1 << (t - 1)
                    tails = {0, 1, h - 1, h, h + 1, (1 << t) - 1, (1 << t), (1 << t) + 1, (1 << t) + h, (1 << t) + h - 1, (1 << t) + h + 1}
                    run = sorted({base + x for x in tails if 0 <= base + x <= mx})
                out.append(run)
    out.append(sorted({0, 1, 2, mx, mx - 1 if mx else 0}))
    return [sorted(x for x in run if 0 <= x <= mx) for run in out]


def scenarios(tier, rng):
    quick = tier == "quick"
    sc = []
    for bits in WIDTHS:
        p64 = f64_patterns(bits, rng, 10 if quick else 200)
        p32 = f32_patterns(bits, rng, 5 if quick else 100)
        if quick and bits not in (0, 1, 7, 8, 52, 53, 63, 64, 65, 128, 256, 1024, 1100):
            p64 = rng.sample(p64, min(len(p64), 150))
            p32 = rng.sample(p32, min(len(p32), 60))
        for p in p64:
            sc.append({"g": "float", "op": "from_f64", "bits": bits, "p": tobytes(p)})
        for p in p32:
            sc.append({"g": "float", "op": "from_f32", "bits": bits, "p": tobytes(p)})
        if bits > 0:
            for run in runs(bits, rng, quick):
                sc.append({"g": "float", "op": "to_f", "bits": bits, "xs": [tobytes(x) for x in run]})
    # Uint -> float far beyond the compiled widths (bit lengths above 2^16: the binary exponent no longer fits 16 bits)
    for bits in (65700, 70000):
        mx = (1 << bits) - 1
        run = sorted({0, 1, (1 << 24) + 1, 1 << 200, (1 << 1024) - 1, 1 << 65535, (1 << 65536) - 1, 1 << 65536, (1 << 65536) + 1,
                      1 << 65599, 1 << 65600, (1 << 65663) + 12345, 1 << (bits - 1), mx - 1, mx})
        sc.append({"g": "float", "op": "to_f", "bits": bits, "xs": [tobytes(x) for x in run]})
        sc.append({"g": "float", "op": "to_f", "bits": bits, "xs": [tobytes(x) for x in sorted({(1 << 65536 + k) - 1 for k in range(0, 130, 13)})]})
    return {"ux_conv": sc}
