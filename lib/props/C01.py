"""C01 add / sub / neg exact mod 2^BITS, flags exact."""
from ..vlib import WIDTHS, tobytes, pairs, values, nlimbs

BINS = ["ux_arith"]
RULE = ("all operand pairs at BITS<=6 (exhaustive); at every other compiled width the product of boundary "
        "values (0,1,MAX,2^k,2^k+-1 at limb boundaries, limb-alphabet products, carry-chain families "
        "a=2^k-1,b=1 and a+b=2^BITS+-{0,1}) plus seeded random limbs; every pair goes through all 26 "
        "method/operator/assign forms; a case is one distinct (width, a, b) or one summed list")


def carry_families(bits):
    if bits == 0:
        return []
    m = (1 << bits) - 1
    out = []
    ks = {1, bits - 1, bits}
    for lb in range(64, bits + 64, 64):
        ks.update({lb - 1, lb, lb + 1})
    for k in sorted(k for k in ks if 0 < k <= bits):
        a = (1 << k) - 1
        out += [(a & m, 1), (1, a & m), (a & m, a & m)]
    for a in (0, 1, 2, m >> 1, m - 1, m):
        for d in (-1, 0, 1):
            b = (1 << bits) + d - a
            if 0 <= b <= m:
                out.append((a, b))
    return [(a, b) for a, b in out if 0 <= a <= m and 0 <= b <= m]


def sum_families(bits, rng, quick):
    """Term lists whose limb-wise column sums carry INTO a column that is itself all ones (or wraps together with the
    carry-in): an implementation that adds the columns first and ripples the carries afterwards must get every one of
    these right, not only the pairwise case.  Seed T10-A (`Sum<&Uint>` via wide column accumulators) needed exactly this."""
    if bits == 0:
        return [[0, 0], [0, 0, 0]]
    m = (1 << bits) - 1
    L = (bits + 63) // 64
    W = (1 << 64) - 1
    out = []
    for a, b in carry_families(bits):
        out += [[a, b], [b, a, 0]]
    fives = int("5" * 16 * L, 16) & m
    aas = int("a" * 16 * L, 16) & m
    out += [[fives, aas, 1], [fives, aas, 1, m], [aas, fives, 2, m - 1], [m, m, m, 3], [m, m, 2], [m] * 5, [m, 1, m, 1]]
    for k in range(1, L + 1):
        low = (1 << (64 * k)) - 1 if 64 * k < bits else m
        out += [[low & m, 1], [low & m, low & m, 2], [low & m, low & m, low & m, 3]]
        # column k-1 sums to 2 W (carry 1, low word W - 1); columns above are all ones: the carry must ripple through them
        hi = m & ~low
        out += [[(hi | W << (64 * (k - 1))) & m, (W << (64 * (k - 1))) & m, (1 << (64 * (k - 1))) & m],
                [(hi | 1 << (64 * (k - 1))) & m, (W << (64 * (k - 1))) & m]]
    for _ in range(4 if quick else 40):
        # random all-ones / zero / W-1 limb patterns, 2..5 terms
        n = rng.randint(2, 5)
        xs = []
        for _t in range(n):
            v = 0
            for i in range(L):
                v |= rng.choice([0, 1, W, W - 1, W >> 1, 1 << 63, rng.getrandbits(64)]) << (64 * i)
            xs.append(v & m)
        out.append(xs)
    out = [[x & m for x in xs] for xs in out]
    if bits > 600:
        # the same event also records the PRODUCT of the list, and a full x full product costs TLC seconds at these sizes:
        # keep the lists in which all terms but one are tiny
        out = [xs for xs in out if sum(1 for x in xs if x > 3) <= 1]
    return out


def scenarios(tier, rng):
    npairs = 260 if tier == "quick" else 2500
    sc = []
    for bits in WIDTHS:
        ps = pairs(bits, rng, npairs if bits <= 1100 else npairs // 6) + carry_families(bits)
        for a, b in dict.fromkeys(ps):
            sc.append({"g": "arith", "op": "addsub", "bits": bits, "a": tobytes(a), "b": tobytes(b)})
        vs = values(bits, rng, 6)
        for n in range(0, 6):
            for rep in range(3 if tier == "quick" else 12):
                xs = [rng.choice(vs) for _ in range(n)]
                sc.append({"g": "arith", "op": "sum", "bits": bits, "xs": [tobytes(x) for x in xs]})
        for xs in sum_families(bits, rng, tier == "quick"):
            sc.append({"g": "arith", "op": "sum", "bits": bits, "xs": [tobytes(x) for x in xs]})
    return {"ux_arith": sc}
