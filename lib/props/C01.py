"""C01 add / sub / neg exact mod 2^BITS, flags exact."""
from ..vlib import WIDTHS, tobytes, pairs, values, nlimbs

BINS = ["ux_arith"]
RULE = ("all operand pairs at BITS<=6 (exhaustive); at every other compiled width the product of boundary "
        "values (0,1,MAX,2^k,2^k+-1 at limb boundaries, limb-alphabet products, carry-chain families "
        "a=2^k-1,b=1 and a+b=2^BITS+-{0,1}) plus seeded random limbs; every pair goes through all 26 "
        "method/operator/assign forms; a case is one distinct (width, a, b) or one summed list")


def carry_families(bits):
    if bits == 0:
        return []
    m = (1 << bits) - 1
    out = []
    ks = {1, bits - 1, bits}
    for lb in range(64, bits + 64, 64):
        ks.update({lb - 1, lb, lb + 1})
    for k in sorted(k for k in ks if 0 < k <= bits):
        a = (1 << k) - 1
        out += [(a & m, 1), (1, a & m), (a & m, a & m)]
    for a in (0, 1, 2, m >> 1, m - 1, m):
        for d in (-1, 0, 1):
            b = (1 << bits) + d - a
            if 0 <= b <= m:
                out.append((a, b))
    return [(a, b) for a, b in out if 0 <= a <= m and 0 <= b <= m]


def scenarios(tier, rng):
    npairs = 260 if tier == "quick" else 2500
    sc = []
    for bits in WIDTHS:
        ps = pairs(bits, rng, npairs if bits <= 1100 else npairs // 6) + carry_families(bits)
        for a, b in dict.fromkeys(ps):
            sc.append({"g": "arith", "op": "addsub", "bits": bits, "a": tobytes(a), "b": tobytes(b)})
        vs = values(bits, rng, 6)
        for n in range(0, 6):
            for rep in range(3 if tier == "quick" else 12):
                xs = [rng.choice(vs) for _ in range(n)]
                sc.append({"g": "arith", "op": "sum", "bits": bits, "xs": [tobytes(x) for x in xs]})
    return {"ux_arith": sc}
