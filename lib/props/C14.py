"""C14 limb-slice division kernels."""
from ..vlib import tobytes, LIMB_ALPHABET
from . import C03

BINS = ["ux_kern"]
RULE = ("algorithms::div with numerator and divisor lengths 1..12 independently (quick 1..7), 0..2 zero limbs of "
        "padding on each, contents from the C03 adversarial constructions (n=q*d+r with extreme parts, (q+1)*d-delta, "
        "numerator windows equal to the divisor's leading limbs) and the limb alphabet product for lengths <=3; the "
        "specialised kernels inside their code-level preconditions; reciprocals at the first, last and middle d of "
        "every one of the 256 table rows, row boundaries +-1, 2^63, 2^64-1, low 24/40 bits all ones or zero, and 48 (thorough 240) "
        "random d in the first and last 2.3 % of every row (where a slightly wrong table entry is not absorbed by the Newton steps; "
        "measured with a simulated reciprocal: of the 1536 perturbations +-1..3 of one entry 970 change no result at all on "
        "4000 samples, 557 of the other 566 are caught), "
        "reciprocal_2 over d1 x d0 classes incl. 2^127 and 2^128-1; 2x1 and 3x2 at u=q*d+r with extreme q, r and u "
        "just below d*2^64; a case is one distinct call")
B = 1 << 64


def slice_bytes(v, nlimbs):
    return list(v.to_bytes(8 * nlimbs, "little"))


def limbs_of(v):
    return max(1, (v.bit_length() + 63) // 64)


def rand_limbs(rng, n, top_nonzero=True):
    v = 0
    for i in range(n):
        x = rng.choice(LIMB_ALPHABET) if rng.random() < 0.5 else rng.getrandbits(64)
        v |= x << (64 * i)
    if top_nonzero and n and (v >> (64 * (n - 1))) == 0:
        v |= 1 << (64 * (n - 1))
    return v


def div_pairs(rng, nl, dl, count):
    """(n, d) integer pairs with exactly nl / dl significant limbs (d != 0)."""
    out = []
    bits = 64 * max(nl, dl)
    for n, d in C03.adversarial(bits, rng, count * 6):
        if d and limbs_of(d) == dl and limbs_of(n) <= nl:
            out.append((n, d))
        if len(out) >= count:
            break
    while len(out) < count:
        d = rand_limbs(rng, dl)
        n = rand_limbs(rng, nl, top_nonzero=rng.random() < 0.8)
        out.append((n, d))
    return out


_MG10_TABLE = [((1 << 19) - 3 * (1 << 8)) // (i + 256) for i in range(256)]      # the seed table as Moeller-Granlund define it


def _recip_sim(d, table):
    """Algorithm 3 of Moeller-Granlund (64-bit reciprocal) with the given seed table, on wrapping 64-bit words."""
    M = B - 1
    d0, d9, d40, d63 = d & 1, d >> 55, (1 + (d >> 24)) & M, ((d + 1) & M) >> 1
    v0 = table[d9 - 256]
    v1 = ((v0 << 11) - (((v0 * v0 * d40) & M) >> 40) - 1) & M
    v2 = ((v1 << 13) + (((v1 * (((1 << 60) - v1 * d40) & M)) & M) >> 47)) & M
    e = (((v2 >> 1) & ((0 - d0) & M)) - v2 * d63) & M
    v3 = ((((v2 * e) >> 64) >> 1) + (v2 << 31)) & M
    return (v3 - ((v3 * d + d) >> 64) - d) & M


def table_sensitive_divisors(rng, per=2, tries=260):
    """Divisors for which ONE wrong entry of the 256-entry seed table (off by 1, 2 or 3 either way) changes the reciprocal.
    The Newton steps absorb such an error for all but a few per cent of the divisors at one end of the entry's row - and
    there only for some low-bit patterns - so sampling the row does not find them reliably; this search perturbs the table
    of the published algorithm entry by entry and keeps the divisors whose result moves."""
    out = []
    for row in range(256, 512):
        lo = row << 55
        for delta in (-3, -2, -1, 1, 2, 3):
            t = list(_MG10_TABLE)
            t[row - 256] += delta
            found = 0
            for i in range(tries):
                span = (8, 16, 24, 32, 40, 44, 48)[i % 7]
                off = rng.getrandbits(span)
                d = lo + off if (i // 7) % 2 == 0 else lo + (1 << 55) - 1 - off
                if _recip_sim(d, t) != ((1 << 128) - 1) // d - B:
                    out.append(d)
                    found += 1
                    if found >= per:
                        break
    return sorted(set(out))


def _recip_sim_v1(d, dv1):
    """_recip_sim with the first Newton iterate moved by dv1 (published table)."""
    M = B - 1
    d0, d9, d40, d63 = d & 1, d >> 55, (1 + (d >> 24)) & M, ((d + 1) & M) >> 1
    v0 = _MG10_TABLE[d9 - 256]
    v1 = ((v0 << 11) - (((v0 * v0 * d40) & M) >> 40) - 1 + dv1) & M
    v2 = ((v1 << 13) + (((v1 * (((1 << 60) - v1 * d40) & M)) & M) >> 47)) & M
    e = (((v2 >> 1) & ((0 - d0) & M)) - v2 * d63) & M
    v3 = ((((v2 * e) >> 64) >> 1) + (v2 << 31)) & M
    return (v3 - ((v3 * d + d) >> 64) - d) & M


def first_step_rounding_edges(rng, window=40_000_000, per_row=4):
    """Divisors at which the FIRST Newton step of the reciprocal sits on a rounding boundary AND its result matters.
    v1 = 2^11 v0 - floor(v0^2 d40 / 2^40) - 1: the floor jumps exactly at d40 = ceil(k 2^40 / v0^2); an implementation that
    feeds a slightly different d40 (one less, one more, truncated instead of rounded up) gets a v1 that differs by one
    exactly at those d40 (and the ones just before).  A v1 that is one too large is absorbed by the later steps almost
    everywhere - except near d40 = 2^50 / v0, where v1 d40 is within one d40 of 2^60 and `2^60 - v1 d40` changes sign.
    The intersection (a few 40-bit prefixes per table row, about 1e-9 of all divisors: seed S9-A) is enumerated, not
    sampled: jump points inside the window around 2^50 / v0, kept when moving v1 by +-1 moves the published algorithm's result."""
    out = []
    for row in range(256, 512):
        v0 = _MG10_TABLE[row - 256]
        A = v0 * v0
        lo, hi = ((row << 55) >> 24) + 1, ((((row + 1) << 55) - 1) >> 24) + 1            # range of d40 in this row
        c = (1 << 50) // v0
        a, b = max(lo, c - window), min(hi, c + window)
        k0, k1 = (a * A) >> 40, (b * A) >> 40
        cand = {0: [], 1: []}                                                          # at the jump / just before it
        for k in range(k0, k1 + 2):
            x = -((-k << 40) // A)                                                     # ceil(k 2^40 / A)
            for kind, d40 in ((0, x), (1, x - 1)):
                if a <= d40 <= b and ((d40 - 1) << 24) >> 55 == row:
                    cand[kind].append(d40)
        for kind, want in ((0, per_row), (1, max(per_row // 2, 1))):
            found = 0
            for d40 in rng.sample(cand[kind], len(cand[kind])):
                base = (d40 - 1) << 24
                d = base + rng.getrandbits(24)
                ref = _recip_sim_v1(d, 0)
                if _recip_sim_v1(d, 1) != ref or _recip_sim_v1(d, -1) != ref:
                    out += [d, base] if kind == 0 else [d]
                    found += 1
                    if found >= want:
                        break
    return sorted(set(out))


def _recip2_sim(d1, d0):
    """The 3-by-2 reciprocal of Moeller-Granlund (Algorithm 6) on exact integers; returns (third adjustment entered, p, t0)."""
    v = ((1 << 128) - 1) // d1 - B
    p = (d1 * v + d0) % B
    if p < d0:
        v -= 1
        if p >= d1:
            v -= 1
            p -= d1
        p = (p - d1) % B
    t = (v % B) * d0
    t1, t0 = t >> 64, t % B
    p2 = (p + t1) % B
    return p2 < t1, p2, t0


def recip2_tie_cases(rng, count):
    """Divisors d = (d1, d0) for which the LAST adjustment of the 3-by-2 reciprocal compares two double words with EQUAL high
    words (p = d1), so that the low words decide - a 2^-64 event for random d.  Solved for: with r = (2^128 - 1) mod d1 and the
    first adjustment taken once (twice), p = d1 needs floor(v' d0 / 2^64) + d0 = 2 d1 + 1 + r (3 d1 + 1 + r), and the left
    side is monotone in d0."""
    out = []
    tries = 0
    while len(out) < count and tries < 200 * count:
        tries += 1
        d1 = rng.getrandbits(64) | (1 << 63)
        if rng.random() < 0.7:
            d1 = (1 << 63) + rng.getrandbits(rng.randrange(40, 63))      # c = d1 / 2^64 near 1/2 makes the constraints easy
        v = ((1 << 128) - 1) // d1 - B
        r = ((1 << 128) - 1) % d1
        for steps in (1, 2):
            vv = v - steps
            if vv < 0:
                continue
            target = (steps + 1) * d1 + 1 + r
            lo, hi = r + 1 + (steps - 1) * d1, min(B - 1, r + steps * d1)
            if lo > hi:
                continue
            f = lambda x: ((vv * x) >> 64) + x
            a, b = lo, hi
            while a < b:
                mid = (a + b) // 2
                if f(mid) >= target:
                    b = mid
                else:
                    a = mid + 1
            for d0 in (a, a + 1, a - 1):
                if lo <= d0 <= hi:
                    entered, p, t0 = _recip2_sim(d1, d0)
                    if entered and p == d1:
                        out.append((d1, d0, t0 < d0))
    return out


def scenarios(tier, rng):
    quick = tier == "quick"
    sc = []
    maxlen = 7 if quick else 12
    per = 5 if quick else 14
    for nl in range(1, maxlen + 1):
        for dl in range(1, maxlen + 1):
            for n, d in div_pairs(rng, nl, dl, per):
                npad, dpad = rng.choice([0, 0, 1, 2]), rng.choice([0, 0, 1, 2])
                sc.append({"g": "kern", "op": "kdiv", "n": slice_bytes(n, nl + npad), "d": slice_bytes(d, dl + dpad)})
                if dl >= 3 and nl >= dl:
                    sc.append({"g": "kern", "op": "kdiv_nxm", "n": slice_bytes(n, nl + npad), "d": slice_bytes(d, dl)})
                if dl == 1 and limbs_of(n) == nl and n:
                    sc.append({"g": "kern", "op": "kdiv_nx1", "n": slice_bytes(n, nl), "d": tobytes(d)})
                    dn = d | (1 << 63)
                    sc.append({"g": "kern", "op": "kdiv_nx1", "n": slice_bytes(n, nl), "d": tobytes(dn)})
                if dl == 2 and limbs_of(n) == nl and n:
                    sc.append({"g": "kern", "op": "kdiv_nx2", "n": slice_bytes(n, nl), "d": tobytes(d)})
                    dn = d | (1 << 127)
                    sc.append({"g": "kern", "op": "kdiv_nx2", "n": slice_bytes(n, nl), "d": tobytes(dn)})
                if dl >= 2:
                    # normalised Knuth: divisor top bit set, numerator one limb longer than quotient+divisor needs
                    dn = d | (1 << (64 * dl - 1))
                    m1 = max(1, nl - dl + 1)           # quotient limbs
                    q = rand_limbs(rng, m1, top_nonzero=False) if rng.random() < 0.7 else (1 << (64 * m1)) - 1
                    r = rng.choice([0, 1, dn - 1, rng.randrange(0, dn)])
                    num = q * dn + r
                    sc.append({"g": "kern", "op": "kdiv_nxm_norm", "n": slice_bytes(num, dl + m1), "d": slice_bytes(dn, dl)})
                    # window equal to the divisor's two leading limbs (forced digit)
                    top2 = dn >> (64 * (dl - 2))
                    num2 = (top2 << (64 * (dl - 2 + m1))) - 1 - rng.getrandbits(32)
                    if num2 >= 0 and num2 < (dn << (64 * m1)):
                        sc.append({"g": "kern", "op": "kdiv_nxm_norm", "n": slice_bytes(num2, dl + m1), "d": slice_bytes(dn, dl)})
    # forced quotient digit with normalised and un-normalised divisors (see C03.forced_digit_cases)
    for bits in (192, 256, 320, 512, 768):
        for n, d in C03.forced_digit_cases(bits, rng, 4 if quick else 30):
            nl, dl = limbs_of(n), limbs_of(d)
            sc.append({"g": "kern", "op": "kdiv", "n": slice_bytes(n, nl + rng.choice([0, 1])), "d": slice_bytes(d, dl + rng.choice([0, 1]))})
            if nl >= dl >= 3:
                sc.append({"g": "kern", "op": "kdiv_nxm", "n": slice_bytes(n, nl), "d": slice_bytes(d, dl)})
    # equal and nearly equal operands, divisors with zero low limbs against shorter / equal / longer numerators, with padding
    # (the dispatcher's comparisons and zero-limb handling; see C03.low_zero_divisor_cases)
    for bits in (192, 256, 320, 448):
        for n, d in C03.low_zero_divisor_cases(bits, rng, 24 if quick else 240):
            nl, dl = max(limbs_of(n), 1), limbs_of(d)
            sc.append({"g": "kern", "op": "kdiv", "n": slice_bytes(n, nl + rng.choice([0, 0, 1, 2])), "d": slice_bytes(d, dl + rng.choice([0, 0, 1]))})
        for dl in range(3, bits // 64 + 1):
            d = rand_limbs(rng, dl)
            for n in (d, d - 1, d + 1):
                if n >> (64 * dl) == 0:
                    sc.append({"g": "kern", "op": "kdiv", "n": slice_bytes(n, dl + rng.choice([0, 1])), "d": slice_bytes(d, dl)})
    # zero numerators / zero divisors / alphabet products for short slices
    import itertools
    alpha = [0, 1, 2**64 - 1] if quick else [0, 1, 2**63, 2**64 - 1]
    for nl in range(1, 4):
        for dl in range(1, 4):
            for nlimbs_ in itertools.product(alpha, repeat=nl):
                for dlimbs in itertools.product(alpha, repeat=dl):
                    if quick and rng.random() < 0.6:
                        continue
                    n = sum(x << (64 * i) for i, x in enumerate(nlimbs_))
                    d = sum(x << (64 * i) for i, x in enumerate(dlimbs))
                    sc.append({"g": "kern", "op": "kdiv", "n": slice_bytes(n, nl), "d": slice_bytes(d, dl)})
    # reciprocals
    ds = {1 << 63, B - 1, (1 << 63) + 1, B - 2}
    for row in range(256, 512):
        lo = row << 55
        hi = ((row + 1) << 55) - 1
        ds.update({lo, hi, (lo + hi) // 2, min(hi + 1, B - 1), max(lo - 1, 1 << 63), hi - 1, hi - (1 << 20), lo + 1})
        if not quick:
            ds.update({lo | ((1 << 24) - 1), lo | ((1 << 40) - 1), (lo + rng.getrandbits(55)), lo | (1 << 24), lo | (1 << 40)})
    # a slightly wrong table entry is absorbed by the Newton steps except in a band of 1-2 % at one end of its row (which end
    # depends on the sign of the error), and there only for some low-bit patterns: sample both bands of every row
    band = set()
    for row in range(256, 512):
        lo = row << 55
        for _ in range(12 if quick else 60):
            band.add(lo + rng.getrandbits(48))                       # first 0.8 % of the row
            band.add(lo + (1 << 55) - 1 - rng.getrandbits(48))       # last 0.8 %
            band.add(lo + rng.getrandbits(49) + (1 << 48))           # 0.8 .. 2.3 %
            band.add(lo + (1 << 55) - 1 - rng.getrandbits(49) - (1 << 48))
    for _ in range(50 if quick else 1000):
        ds.add(rng.getrandbits(64) | 1 << 63)
        ds.add((rng.getrandbits(64) | 1 << 63 | ((1 << 40) - 1)) & (B - 1))
        ds.add((rng.getrandbits(64) | 1 << 63) & ~((1 << 24) - 1))
    sens = table_sensitive_divisors(rng, 3 if quick else 6, 700 if quick else 2000)
    sens += first_step_rounding_edges(rng, 40_000_000, 4 if quick else 24)
    for d in sorted(ds | band | set(sens)):
        sc.append({"g": "kern", "op": "krecip", "d": tobytes(d)})
    d1s = sorted(ds)[:: 12 if quick else 3] + [1 << 63, B - 1]
    for d1 in d1s:
        for d0 in {0, 1, d1, B - 1, B - 2, 1 << 63, rng.getrandbits(64)}:
            sc.append({"g": "kern", "op": "krecip2", "d": tobytes((d1 << 64) | d0)})
    # the last adjustment with equal high words: both outcomes of the low-word comparison
    ties = recip2_tie_cases(rng, 40 if quick else 400)
    for d1, d0, _ in ties:
        sc.append({"g": "kern", "op": "krecip2", "d": tobytes((d1 << 64) | d0)})
    sc.append({"g": "kern", "op": "krecip2", "d": tobytes(1 << 127)})
    sc.append({"g": "kern", "op": "krecip2", "d": tobytes((1 << 128) - 1)})
    # 2x1 and 3x2
    for d in sorted(ds)[:: 6 if quick else 2]:
        for q in (0, 1, B - 2, B - 1, rng.getrandbits(64)):
            for r in (0, 1, d - 1, rng.randrange(0, d)):
                sc.append({"g": "kern", "op": "kdiv_2x1", "u": tobytes(q * d + r), "d": tobytes(d)})
        sc.append({"g": "kern", "op": "kdiv_2x1", "u": tobytes(d * B - 1), "d": tobytes(d)})
    for d1 in d1s[:: 3 if quick else 1]:
        for d0 in (0, 1, B - 1, rng.getrandbits(64)):
            d = (d1 << 64) | d0
            for q in (0, 1, B - 2, B - 1, rng.getrandbits(64)):
                for r in (0, 1, d - 1, rng.randrange(0, d)):
                    u = q * d + r
                    sc.append({"g": "kern", "op": "kdiv_3x2", "u21": tobytes(u >> 64), "u0": tobytes(u & (B - 1)), "d": tobytes(d)})
            u = d * B - 1
            sc.append({"g": "kern", "op": "kdiv_3x2", "u21": tobytes(u >> 64), "u0": tobytes(u & (B - 1)), "d": tobytes(d)})
    return {"ux_kern": sc}
