"""C20 operator, wrapper and trait facades agree with the inherent methods."""
from ..vlib import WIDTHS, tobytes, pairs, values, nlimbs, rand_value, boundary_values, limb_pattern_pairs
from . import C01, C02, C03, C05, C06

BINS = ["ux_fac", "ux_arith", "ux_bits"]
RULE = ("all operand pairs at BITS<=4 through every facade entry point (num-traits ~40 traits, num-integer 14 methods + "
        "extended_gcd/inc/dec, subtle 5 traits + bit_ct, every forwarded Bits method and operator, zeroize, FromPrimitive/"
        "NumCast/Num), boundary-alphabet ASYMMETRIC operands (a != b, both orders, distinct shift amounts) at the other "
        "widths; the 6 operator-impl shapes per binary operator and Sum/Product come from the arith/bits events; a case is "
        "one distinct (width, operands)")


def scenarios(tier, rng):
    quick = tier == "quick"
    fac = []
    for bits in WIDTHS:
        mx = (1 << bits) - 1
        if bits <= 4:
            ps = [(a, b) for a in range(1 << bits) for b in range(1 << bits)]
            vs = list(range(1 << bits))
        else:
            n = (60 if quick else 600) if bits <= 576 else (6 if quick else 30)
            ps = pairs(bits, rng, n)
            ps = [(a, b) for a, b in ps if a != b][:n] + [(b, a) for a, b in ps[: n // 3] if a != b] + [(mx, mx), (0, 0), (1, 0), (0, 1)]
            if bits <= 576:
                ps += limb_pattern_pairs(bits, rng, 27 if quick else 120)
            vs = values(bits, rng, 4 if quick else 30)
            if bits > 576:
                vs = vs[:4] + vs[-3:] + [rand_value(rng, bits)]
        for a, b in dict.fromkeys(ps):
            fac.append({"g": "fac", "op": "fac2", "bits": bits, "a": tobytes(a), "b": tobytes(b)})
        for a in vs:
            fac.append({"g": "fac", "op": "fac1", "bits": bits, "a": tobytes(a)})
        amts = sorted({0, 1, 2, 7, 8, 63, 64, 65, bits - 1, bits, bits + 1, 64 * nlimbs(bits), 64 * nlimbs(bits) + 1, 2**30, 2**31 - 1}
                      | {rng.randrange(0, bits + 2) for _ in range(3 if quick else 12)})
        svals = vs if bits <= 4 else [0, 1, mx, mx >> 1, 1 << (bits - 1), rand_value(rng, bits), rand_value(rng, bits)]
        for a in dict.fromkeys(svals):
            for s in amts:
                if 0 <= s < 2**31:      # plain JSON numbers must stay below 2^31 for TLC
                    fac.append({"g": "fac", "op": "facs", "bits": bits, "a": tobytes(a), "s": s})
        prim = {0, 1, 2, 127, 128, 255, 256, mx, mx + 1, 2**63 - 1, 2**63, 2**64 - 1, 2**64, 2**127 - 1, 2**127, 2**128 - 1, max(mx - 1, 0)}
        for v in sorted(p for p in prim if p < 2**128):
            fac.append({"g": "fac", "op": "facp", "bits": bits, "sg": False, "v": tobytes(v)})
            if 0 < v <= 2**127:
                fac.append({"g": "fac", "op": "facp", "bits": bits, "sg": True, "v": tobytes(v)})
    # operator-impl shapes and iterator folds: a thin slice of the arith / bits events
    sub = "quick"
    arith = []
    for mod in (C01, C02, C03):
        sc = mod.scenarios(sub, rng)["ux_arith"]
        arith += [s for s in sc if s["op"] != "sum" and (s["bits"] <= 6 or s["bits"] in (63, 64, 65, 128, 256))][:: 1 if not quick else 5]
        # the iterator folds (Sum / Product, by value and by reference) are few: all of them, also at 3 and 5 limbs
        arith += [s for s in sc if s["op"] == "sum" and (s["bits"] <= 6 or s["bits"] in (63, 64, 65, 128, 192, 256, 257, 320))]
    bitsg = []
    for mod in (C05, C06):
        sc = mod.scenarios(sub, rng)["ux_bits"]
        bitsg += [s for s in sc if s["op"] in ("logic", "shift", "shiftu") and (s["bits"] <= 4 or s["bits"] in (63, 64, 65, 128, 256))][:: 3 if not quick else 15]
    return {"ux_fac": fac, "ux_arith": arith, "ux_bits": bitsg}
