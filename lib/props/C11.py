"""C11 Montgomery multiplication and squaring (Uint methods and array kernels)."""
from ..vlib import WIDTHS, tobytes, nlimbs
from .. import witness as W
from .C14 import slice_bytes

BINS = ["ux_math", "ux_kern"]
RULE = ("array kernels for every N in 1..=16 (quick: 1-4, 8, 16) and the Uint methods at every compiled width with "
        "1<=LIMBS<=16 (incl. non-aligned widths); odd moduli with top limb in {2^62-2,2^62-1,2^62,2^63-2,2^63-1,2^63,"
        "2^64-1,1,random} (the carry thresholds) x lower limbs {all-ones, zero except odd bit, random}; a, b in "
        "{0,1,m-1,m-2,(m+-1)/2, 2^(64N-1) if < m, random < m}; inv = -m^-1 mod 2^64 computed by the generator and "
        "re-checked by the specification; signed quotient witnesses; composite moduli p*q (and p^2) with a = p*x, b = q*y so that "
        "a*b is a non-zero exact multiple of m (the accumulator before the final subtraction equals m), and operand pairs "
        "whose product is a non-zero multiple of 2^64 (first reduction factor 0); a case is one distinct (N | width, m, a, b)")
B = 1 << 64
TOPS = [2**62 - 2, 2**62 - 1, 2**62, 2**62 + 1, 2**63 - 2, 2**63 - 1, 2**63, 2**63 + 1, 2**64 - 1, 1, 3]


def moduli(rng, n, maxval, count):
    ms = []
    for top in TOPS + [rng.getrandbits(64) | 1 for _ in range(3)]:
        for low_kind in range(3):
            if n == 1:
                m = top | 1
            else:
                low = [(1 << (64 * (n - 1))) - 1, 1, rng.getrandbits(64 * (n - 1)) | 1][low_kind]
                m = (top << (64 * (n - 1))) | low
            if 3 <= m <= maxval and m % 2 == 1:
                ms.append(m)
    # also the largest odd value of the width
    ms.append(maxval if maxval % 2 == 1 else maxval - 1)
    ms = [m for m in dict.fromkeys(ms) if m >= 3]
    if len(ms) > count:
        ms = rng.sample(ms, count)
    return ms


def operands(rng, m, n):
    c = {0, 1, m - 1, m - 2, (m - 1) // 2, (m + 1) // 2, rng.randrange(0, m), rng.randrange(0, m)}
    h = 1 << (64 * n - 1)
    if h < m:
        c.add(h)
    # Montgomery images of small negative numbers for moduli close to R = 2^(64 n): a = m - k (R - m); their squares leave
    # the unreduced accumulator just above R (outer carry pending, top limb wrapping to 0 / 1)
    R = 1 << (64 * n)
    if 2 * m > R:
        cc = R - m
        for k in (1, 2, 3, rng.randrange(1, 1 << 20)):
            c.add(m - k * cc)
        c.add(2 * m - R)
    return sorted(x for x in c if 0 <= x < m)


EDGE = [0, 1, 2, 3, 2**62 - 1, 2**62, 2**62 + 1, 2**63 - 1, 2**63, 2**63 + 1, B - 3, B - 2, B - 1]
HIGH = [B - 1, B - 2, B - 3, 2**63, 2**63 + 1, 2**62]


def carry_grid(rng, n, count):
    """Inputs aimed at the dropped-carry condition: top limb of m exactly at a threshold, a within a few units of m,
    limbs of b (and the lower limbs of m) near 2^64 so that an intermediate accumulator reaches 2^(64 N).
    (This is the W=64 image of the small-W counterexamples of algo/Redc.tla, DESIGN.md 8 'symbolic lifting'.)"""
    out = []
    tops = [2**63, 2**63 - 1, 2**63 + 1, 2**62, 2**62 - 1, 2**62 + 1, 2**62 - 2, 2**63 - 2]
    for _ in range(count):
        top = rng.choice(tops[:4]) if rng.random() < 0.7 else rng.choice(tops)
        low = [rng.choice(EDGE) for _ in range(n - 1)]
        if low:
            low[0] |= 1
        m = sum(x << (64 * i) for i, x in enumerate(low)) | (top << (64 * (n - 1)))
        if n == 1:
            m |= 1
        if m < 3 or m % 2 == 0:
            continue
        a = m - rng.choice([1, 2, 3, 4, 5])
        bl = [rng.choice(HIGH) if rng.random() < 0.8 else rng.choice(EDGE) for _ in range(n)]
        b = sum(x << (64 * i) for i, x in enumerate(bl))
        if rng.random() < 0.5:
            b &= (1 << (64 * (n - 1))) - 1            # top limb of b zero
        b %= m
        if a < 0:
            continue
        out.append((m, a, b))
        out.append((m, b, a))
    return out


def cios_top_carry(a, b, m, n):
    """Does the CIOS accumulator of mul_redc reach 2^(64 n) in some outer iteration (the carry that the code keeps
    only above its threshold)?  A plain Python transcription of the textbook CIOS recurrence, used ONLY to aim the
    generator at the rare carry-set path (it decides nothing)."""
    M = B - 1
    inv = (-pow(m, -1, B)) % B
    al = [(a >> (64 * i)) & M for i in range(n)]
    ml = [(m >> (64 * i)) & M for i in range(n)]
    res = [0] * n
    carry = 0
    hit = False
    for j in range(n):
        bj = (b >> (64 * j)) & M
        c1 = c2 = 0
        mm = 0
        for i in range(n):
            t = al[i] * bj + res[i] + c1
            v, c1 = t & M, t >> 64
            if i == 0:
                mm = (v * inv) & M
            t2 = ml[i] * mm + v + c2
            v2, c2 = t2 & M, t2 >> 64
            if i > 0:
                res[i - 1] = v2
        t = c1 + c2 + carry
        res[n - 1] = t & M
        carry = t >> 64
        hit = hit or carry != 0
    return hit


def aimed_carry_cases(rng, n, per_top, budget):
    """(m, a, b) with the top limb of m at / next to a threshold AND the top carry set in some iteration."""
    out = []
    for top in (2**63, 2**63 - 1, 2**63 + 1, 2**63 + 2, B - 1):
        found = 0
        for _ in range(budget):
            if found >= per_top:
                break
            low = [rng.choice(EDGE + [rng.getrandbits(64)]) for _ in range(n - 1)]
            if low:
                low[0] |= 1
            m = sum(x << (64 * i) for i, x in enumerate(low)) | (top << (64 * (n - 1)))
            if m % 2 == 0 or m < 3:
                continue
            a = m - rng.choice([1, 2, 3, 4, 5, 6])
            bl = [rng.choice(HIGH + [rng.getrandbits(64)]) for _ in range(n)]
            b = sum(x << (64 * i) for i, x in enumerate(bl)) % m
            if rng.random() < 0.5:
                b &= (1 << (64 * (n - 1))) - 1
            for x, y in ((a, b), (b, a)):
                if cios_top_carry(x, y, m, n):
                    out.append((m, x, y))
                    found += 1
    return out


def exact_multiple_cases(rng, maxval, count):
    """(m, a, b) with a*b a NON-ZERO exact multiple of m (a, b < m): the accumulator before the final conditional
    subtraction is then exactly m, the one input class on which `>=` and `>` in that subtraction differ.
    m = p*q with a = p*x, b = q*y;  m = p^2 with a = b = p*x (squares)."""
    out = []
    bl = maxval.bit_length()
    if bl < 4:
        return [(m, a, b) for (m, a, b) in ((15, 3, 5), (15, 5, 3), (9, 3, 3), (9, 6, 3), (9, 3, 6), (9, 6, 6), (15, 6, 10)) if m <= maxval]
    for _ in range(count):
        pb = rng.randrange(2, bl - 1)
        p = rng.getrandbits(pb) | 1 | (1 << (pb - 1))
        qmax = maxval // p
        if qmax < 3:
            continue
        kind = rng.randrange(4)
        if kind == 0:
            q = qmax if qmax % 2 == 1 else qmax - 1           # m as close to the top of the range as p allows
        elif kind == 1 and p * p <= maxval:
            q = p                                             # perfect square: a = b possible
        else:
            q = rng.randrange(3, qmax + 1) | 1
            if q > qmax:
                q -= 2
        if p < 3 or q < 3:
            continue
        m = p * q
        x = rng.choice([1, 2, q - 1, rng.randrange(1, q)])
        y = rng.choice([1, 2, p - 1, rng.randrange(1, p)])
        if not (0 < x < q and 0 < y < p):
            continue
        out.append((m, p * x, q * y))
        if q == p:
            out.append((m, p * x, p * x))
    return out


def low_zero_products(rng, n, maxval, count):
    """(m, a, b) with a*b a non-zero multiple of 2^64 (the first reduction factor is 0 although the product is not)."""
    out = []
    bl = maxval.bit_length()
    if bl < 3:
        return out
    for _ in range(count):
        m = maxval if maxval % 2 == 1 else maxval - 1
        if rng.random() < 0.5:
            m = (rng.getrandbits(bl) | 1 | (1 << (bl - 1))) & maxval
        if m < 3:
            continue
        i = rng.randrange(1, 64)
        j = 64 - i + rng.choice([0, 0, 1, 64]) if n > 1 else 64 - i
        a = ((rng.getrandbits(8) | 1) << i) % (1 << bl)
        b = ((rng.getrandbits(8) | 1) << j) % (1 << bl)
        if 0 < a < m and 0 < b < m and (a * b) % B == 0:
            out.append((m, a, b))
    if maxval >= (1 << 33):
        m = maxval if maxval % 2 == 1 else maxval - 1
        out += [(m, 1 << 32, 1 << 32)] + ([(m, 1 << 63, 2), (m, 2, 1 << 63)] if maxval > (1 << 63) else [])
    return out


def pending_carry_then_zero_limb(rng, n, count):
    """(m, a, b) for which the CIOS accumulator leaves outer iteration 0 with the extra carry PENDING (total >= R = 2^(64 n)),
    the next limb of b is ZERO, and the reduction of that iteration produces a top limb of exactly 2^64 - 1, so that adding the
    pending carry overflows the top limb once more.  Needs m = R - eps close to R, the accumulator's low limb equal to m's low limb
    (reduction factor 2^64 - 1) and a first reduction factor close to 2^64; a is solved for from the chosen accumulator:
    X * 2^64 = a * b0 + m0 * m.  (Any implementation that special-cases zero limbs of b has to get exactly this state right.)"""
    Wd = 1 << 64
    R = 1 << (64 * n)
    out = []
    tries = 0
    while len(out) < count and tries < count * 40:
        tries += 1
        eps = rng.choice([3, 977 + (1 << 32), 189, (1 << 31) + 1, rng.getrandbits(40) | 1, (1 << 62) + 1])
        m = R - eps
        k = rng.choice([1, 1, 2, 3, 7, rng.randrange(1, 1 << 16)])
        m0 = Wd - 1 - k
        b0 = rng.choice([Wd - 59, Wd - 1, Wd - 3, (rng.getrandbits(64) | 1) | (1 << 63)])
        low = m % Wd
        span = 1 << (64 * (n - 1))
        # (R + low + W*Y) * W == m0 * m  (mod b0)
        try:
            winv = pow(Wd, -1, b0)
        except ValueError:
            continue
        y0 = ((m0 * m * winv - R - low) * winv) % b0
        if y0 >= span:
            continue
        z = rng.randrange(0, max((span - y0) // b0, 1))
        y = y0 + b0 * z
        x = R + low + Wd * y
        num = x * Wd - m0 * m
        if num <= 0 or num % b0:
            continue
        a = num // b0
        if not (0 < a < m):
            continue
        # check with the textbook recurrence that the state is as intended
        tot = a * b0
        mm = ((tot % Wd) * ((-pow(m, -1, Wd)) % Wd)) % Wd
        tot = (tot + mm * m) // Wd
        if tot < R or (tot % Wd) != low:
            continue
        for b in (b0, b0 | ((rng.getrandbits(64) | 1) << (64 * (n - 1))) if n >= 3 else b0):
            if b < m:
                out.append((m, a, b))
                out.append((m, b, a))          # commuted: the zero limbs are then in a, not in the scanned operand
    return out


def sq_narrow_bad(a, m, n):
    """Would the NARROW carry handling of square_redc (the branch that assumes carry_hi = carry_outer = 0 and that
    carry_lo + carry fits one limb) go wrong for this input?  A plain transcription of the squaring recurrence with
    exact integers, used only to aim the generator (it decides nothing)."""
    M = B - 1
    inv = (-pow(m, -1, B)) % B
    al = [(a >> (64 * i)) & M for i in range(n)]
    ml = [(m >> (64 * i)) & M for i in range(n)]
    res = [0] * n
    co = 0
    bad = False
    for i in range(n):
        t = al[i] * al[i] + res[i]
        res[i], clo, chi = t & M, t >> 64, 0
        for j in range(i + 1, n):
            t = 2 * al[i] * al[j] + res[j] + clo + (chi << 64)
            res[j], clo, chi = t & M, (t >> 64) & M, t >> 128
        mm = (res[0] * inv) & M
        c = (mm * ml[0] + res[0]) >> 64
        for j in range(1, n):
            t = ml[j] * mm + res[j] + c
            res[j - 1], c = t & M, t >> 64
        bad = bad or chi != 0 or co != 0 or clo + c >= B
        wide = co + clo + (chi << 64) + c
        res[n - 1], co = wide & M, wide >> 64
    return bad


def square_threshold_cases(ns):
    """Operands at the exact edge of the region in which square_redc may use its narrow carry handling.  In round 0 the
    two carries that meet in the top limb are about 2 a_0 t / 2^64 and mm t / 2^64 (t = top limb of the modulus, mm the
    reduction factor), so the narrow path first overflows at t = ceil(2^64 / 3) -- provided a_0 and mm are both within a
    few units of 2^64.  mm = 2^64 - 1 is FORCED by choosing the modulus' low limb equal to the low limb of a_0^2
    (then result[0] = m_0 and m_0 * inv = -1), a_0 = 2^64 - (2j + 1), all middle limbs ones.  The code's own threshold
    (2^62 - 1) is far below this edge; a threshold moved above it (seed T7-B: 0x5600...) is wrong exactly from here on."""
    M = B - 1
    t3 = (B + 2) // 3
    out = []
    for n in ns:
        for d in (-2, -1, 0, 1, 2, 3, 8, 100, 1 << 20, 1 << 40, 1 << 52, 1 << 56, 1 << 58):
            for j in range(0, 6):
                top = t3 + d
                a0, m0 = B - (2 * j + 1), ((2 * j + 1) ** 2) % B
                if n == 2:
                    al, ml = [a0, top - 1], [m0, top]
                else:
                    al, ml = [a0] + [M] * (n - 3) + [M - 1, top], [m0] + [M] * (n - 2) + [top]
                a = sum(x << (64 * i) for i, x in enumerate(al))
                m = sum(x << (64 * i) for i, x in enumerate(ml))
                if 0 < a < m and m % 2 == 1:
                    out.append((m, a, sq_narrow_bad(a, m, n)))
    return out


def scenarios(tier, rng):
    quick = tier == "quick"
    kern, math = [], []
    for m, a, aimed in square_threshold_cases((2, 3, 4, 6) if quick else (2, 3, 4, 5, 6, 8, 12, 16)):
        n = (m.bit_length() + 63) // 64
        inv = (-pow(m, -1, B)) % B
        if quick and not aimed and (a + m) % 3:
            continue
        kern.append({"g": "kern", "op": "kredc", "a": slice_bytes(a, n), "b": slice_bytes(m - a, n), "m": slice_bytes(m, n),
                     "inv": tobytes(inv), "w": W.redc_witness(a, m - a, m, n), "aim": "square_narrow_edge" if aimed else "square_below_edge"})
        if 64 * n in WIDTHS:
            math.append({"g": "math", "op": "redc", "bits": 64 * n, "a": tobytes(a), "b": tobytes(m - a), "m": tobytes(m),
                         "inv": tobytes(inv), "w": W.redc_witness(a, m - a, m, n), "aim": "square_narrow_edge"})
    for n in (2, 3, 4, 6):
        for m, a, b in pending_carry_then_zero_limb(rng, n, 6 if quick else 60):
            inv = (-pow(m, -1, B)) % B
            kern.append({"g": "kern", "op": "kredc", "a": slice_bytes(a, n), "b": slice_bytes(b, n), "m": slice_bytes(m, n),
                         "inv": tobytes(inv), "w": W.redc_witness(a, b, m, n), "aim": "carry_then_zero_limb"})
            if 64 * n in WIDTHS:
                math.append({"g": "math", "op": "redc", "bits": 64 * n, "a": tobytes(a), "b": tobytes(b), "m": tobytes(m),
                             "inv": tobytes(inv), "w": W.redc_witness(a, b, m, n), "aim": "carry_then_zero_limb"})
    for n in ([1, 2, 3, 4] if quick else [1, 2, 3, 4, 5, 8, 16]):
        maxval = (1 << (64 * n)) - 1
        for m, a, b in exact_multiple_cases(rng, maxval, 40 if quick else 400) + low_zero_products(rng, n, maxval, 20 if quick else 200):
            inv = (-pow(m, -1, B)) % B
            kern.append({"g": "kern", "op": "kredc", "a": slice_bytes(a, n), "b": slice_bytes(b, n), "m": slice_bytes(m, n),
                         "inv": tobytes(inv), "w": W.redc_witness(a, b, m, n), "aim": "exact_multiple"})
    for bits in WIDTHS:
        n = nlimbs(bits)
        if not (1 <= n <= 16) or bits < 2:
            continue
        maxval = (1 << bits) - 1
        for m, a, b in exact_multiple_cases(rng, maxval, 8 if quick else 80) + low_zero_products(rng, n, maxval, 6 if quick else 60):
            inv = (-pow(m, -1, B)) % B
            math.append({"g": "math", "op": "redc", "bits": bits, "a": tobytes(a), "b": tobytes(b), "m": tobytes(m),
                         "inv": tobytes(inv), "w": W.redc_witness(a, b, m, n), "aim": "exact_multiple"})
    for n in (3, 4, 6):
        for m, a, b in aimed_carry_cases(rng, n, 12 if quick else 120, 3000 if quick else 40000):
            inv = (-pow(m, -1, B)) % B
            kern.append({"g": "kern", "op": "kredc", "a": slice_bytes(a, n), "b": slice_bytes(b, n), "m": slice_bytes(m, n),
                         "inv": tobytes(inv), "w": W.redc_witness(a, b, m, n), "aim": "top_carry"})
    for n in (2, 3, 4, 5):
        for m, a, b in carry_grid(rng, n, (220 if quick else 3000) if n >= 3 else (60 if quick else 600)):
            inv = (-pow(m, -1, B)) % B
            kern.append({"g": "kern", "op": "kredc", "a": slice_bytes(a, n), "b": slice_bytes(b, n), "m": slice_bytes(m, n),
                         "inv": tobytes(inv), "w": W.redc_witness(a, b, m, n)})
    ns = [1, 2, 3, 4, 8, 16] if quick else list(range(1, 17))
    for n in ns:
        maxval = (1 << (64 * n)) - 1
        for m in moduli(rng, n, maxval, 10 if quick else 40):
            inv = (-pow(m, -1, B)) % B
            ops = operands(rng, m, n)
            prs = [(a, b) for a in ops for b in ops]
            prs = rng.sample(prs, min(len(prs), (6 if quick else 30) if n <= 8 else (3 if quick else 8)))
            for a, b in prs:
                kern.append({"g": "kern", "op": "kredc", "a": slice_bytes(a, n), "b": slice_bytes(b, n), "m": slice_bytes(m, n),
                             "inv": tobytes(inv), "w": W.redc_witness(a, b, m, n)})
    for bits in WIDTHS:
        n = nlimbs(bits)
        if not (1 <= n <= 16) or bits < 2:
            continue
        maxval = (1 << bits) - 1
        for m in moduli(rng, n, maxval, 5 if quick else 20):
            inv = (-pow(m, -1, B)) % B
            ops = operands(rng, m, n)
            prs = [(a, b) for a in ops for b in ops]
            prs = rng.sample(prs, min(len(prs), 5 if quick else 25))
            for a, b in prs:
                math.append({"g": "math", "op": "redc", "bits": bits, "a": tobytes(a), "b": tobytes(b), "m": tobytes(m),
                             "inv": tobytes(inv), "w": W.redc_witness(a, b, m, n)})
    return {"ux_kern": kern, "ux_math": math}
