"""C11 Montgomery multiplication and squaring (Uint methods and array kernels)."""
from ..vlib import WIDTHS, tobytes, nlimbs
from .. import witness as W
from .C14 import slice_bytes

BINS = ["ux_math", "ux_kern"]
RULE = ("array kernels for every N in 1..=16 (quick: 1-4, 8, 16) and the Uint methods at every compiled width with "
        "1<=LIMBS<=16 (incl. non-aligned widths); odd moduli with top limb in {2^62-2,2^62-1,2^62,2^63-2,2^63-1,2^63,"
        "2^64-1,1,random} (the carry thresholds) x lower limbs {all-ones, zero except odd bit, random}; a, b in "
        "{0,1,m-1,m-2,(m+-1)/2, 2^(64N-1) if < m, random < m}; inv = -m^-1 mod 2^64 computed by the generator and "
        "re-checked by the specification; signed quotient witnesses; a case is one distinct (N | width, m, a, b)")
B = 1 << 64
TOPS = [2**62 - 2, 2**62 - 1, 2**62, 2**62 + 1, 2**63 - 2, 2**63 - 1, 2**63, 2**63 + 1, 2**64 - 1, 1, 3]


def moduli(rng, n, maxval, count):
    ms = []
    for top in TOPS + [rng.getrandbits(64) | 1 for _ in range(3)]:
        for low_kind in range(3):
            if n == 1:
                m = top | 1
            else:
                low = [(1 << (64 * (n - 1))) - 1, 1, rng.getrandbits(64 * (n - 1)) | 1][low_kind]
                m = (top << (64 * (n - 1))) | low
            if 3 <= m <= maxval and m % 2 == 1:
                ms.append(m)
    # also the largest odd value of the width
    ms.append(maxval if maxval % 2 == 1 else maxval - 1)
    ms = [m for m in dict.fromkeys(ms) if m >= 3]
    if len(ms) > count:
        ms = rng.sample(ms, count)
    return ms


def operands(rng, m, n):
    c = {0, 1, m - 1, m - 2, (m - 1) // 2, (m + 1) // 2, rng.randrange(0, m), rng.randrange(0, m)}
    h = 1 << (64 * n - 1)
    if h < m:
        c.add(h)
    return sorted(x for x in c if 0 <= x < m)


def scenarios(tier, rng):
    quick = tier == "quick"
    kern, math = [], []
    ns = [1, 2, 3, 4, 8, 16] if quick else list(range(1, 17))
    for n in ns:
        maxval = (1 << (64 * n)) - 1
        for m in moduli(rng, n, maxval, 10 if quick else 40):
            inv = (-pow(m, -1, B)) % B
            ops = operands(rng, m, n)
            prs = [(a, b) for a in ops for b in ops]
            prs = rng.sample(prs, min(len(prs), (6 if quick else 30) if n <= 8 else (3 if quick else 8)))
            for a, b in prs:
                kern.append({"g": "kern", "op": "kredc", "a": slice_bytes(a, n), "b": slice_bytes(b, n), "m": slice_bytes(m, n),
                             "inv": tobytes(inv), "w": W.redc_witness(a, b, m, n)})
    for bits in WIDTHS:
        n = nlimbs(bits)
        if not (1 <= n <= 16) or bits < 2:
            continue
        maxval = (1 << bits) - 1
        for m in moduli(rng, n, maxval, 5 if quick else 20):
            inv = (-pow(m, -1, B)) % B
            ops = operands(rng, m, n)
            prs = [(a, b) for a in ops for b in ops]
            prs = rng.sample(prs, min(len(prs), 5 if quick else 25))
            for a, b in prs:
                math.append({"g": "math", "op": "redc", "bits": bits, "a": tobytes(a), "b": tobytes(b), "m": tobytes(m),
                             "inv": tobytes(inv), "w": W.redc_witness(a, b, m, n)})
    return {"ux_kern": kern, "ux_math": math}
