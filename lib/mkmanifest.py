#!/usr/bin/env python3
"""Regenerates /verif/MANIFEST.json from the table below (python3 lib/mkmanifest.py)."""
import json
import os
import subprocess

VERIF = os.path.dirname(os.path.dirname(os.path.abspath(__file__)))

TRUST = ("Trusted: TLC; the pure-TLA+ BigNat library (model-checked against TLC's native integers by MC_BigNat); the "
         "executor's projection of results (as_limbs() -> bytes, catch_unwind -> panic flag). 'All BITS' is the fixed list "
         "of 42 compiled widths 0..4096; inputs are exhaustive only at BITS<=6, otherwise boundary-class products, "
         "adversarial constructions and seeded random values. Executors run the debug profile (debug assertions, overflow checks); the "
         "scenarios with a panicking call plus a sample (quick) / all scenarios (thorough) are executed again by --release "
         "executors. Little-endian 64-bit target only. Not a proof.")
TECH = "TLA+ contract specification (Layer 1) + TLC trace validation of executor events recorded from the real code"

CHECKS = {
    "C01": ("spec/UintArith.tla CheckAddSub/CheckSum", "Every recorded call of the add/sub/neg family (26 method, operator and "
            "assign forms, iterator sums) is validated by TLC against value = (a op b) mod 2^BITS and flag = exact overflow; all "
            "operand pairs at BITS<=6, boundary-class products (carry chains across all-ones limbs, overflow into masked bits) "
            "and seeded random operands at the other widths."),
    "C02": ("spec/UintArith.tla CheckMul/CheckWMul/CheckSum", "Every recorded overflowing/checked/saturating/wrapping_mul, operator "
            "form, widening_mul (30 width pairs), inv_ring and iterator product is validated by TLC against the exact BigNat "
            "product; all pairs at BITS<=6, addmul-shaped operands (zero low/high/middle limbs, all-ones, single bit) elsewhere."),
    "C03": ("spec/UintArith.tla CheckDiv", "The pair returned by div_rem is checked against the Euclidean contract n = q*d + r, r < d "
            "(unique), and all 19 other forms (operators, checked/wrapping, div_ceil, (checked_)next_multiple_of) against that "
            "pair; zero divisors must panic / give None; all (n,d) at BITS<=6, adversarial Knuth inputs (add-back, forced digit, "
            "every divisor limb length and normalisation class) elsewhere."),
    "C04": ("spec/UintMachine.tla (Canonical, NativeOK), spec/UintBits.tla CheckCmp, spec/UintCanon.tla", "TLC model-checks the register "
            "machine UintMachine (101 public operations as actions: arithmetic, bit operations, shifts, modular arithmetic incl. inv_mod and Montgomery products, checked forms, iterator folds, cross-width conversions and round trips through text, bytes, limbs and every wire codec) exhaustively at tiny widths with the invariants Canonical (closure of "
            "the canonical set) and NativeOK (agreement with the plain integer statements), and every explored transition is replayed "
            "on the real Uint (spec -> implementation); TLC -simulate histories at non-aligned real widths are stepped through the real "
            "register file and compared after every step; in the other direction histories drawn by the executor's own driver are "
            "validated step by step against the machine (spec/MachineTrace.tla, mismatch-tolerant); comparison/hash events, five generator integrations (plus the rand-0.8 inherent methods, which exist only in a build "
            "without the feature rand-09 and are observed through a second crate built with the feature rand alone), rejecting constructors "
            "and compiled probe programs for ill-formed (BITS, LIMBS) pairs are validated by trace validation."),
    "C05": ("spec/UintBits.tla CheckShift/CheckShiftU", "Every recorded shift, rotation and arithmetic shift (methods, 80 typed "
            "operator overload forms, Uint-typed amounts of any magnitude) is validated by TLC against value*2^s mod 2^BITS, "
            "floor(value/2^s), exact lost-bit flags and the cyclic permutation; all values x all amounts 0..BITS+66 at BITS<=6, "
            "all amounts in [0,BITS+64*LIMBS+1] x value classes at widths <=257."),
    "C06": ("spec/UintBits.tla CheckLogic/CheckBitQ/CheckBitIdx", "Bitwise logic (21 forms), 13 bit-counting queries and the indexed "
            "accessors are validated by TLC against the BITS-wide binary expansion; exhaustive at BITS<=6 incl. all indices "
            "0..BITS+64."),
    "C07": ("spec/UintConv.tla", "try_from/from/wrapping_from/saturating_from for bool,u8..u128,usize,i8..i128,isize; Uint->T in all "
            "forms with error payloads; Uint->Uint over 45 width pairs; all five limb-slice constructors and from_limbs; "
            "validated by TLC against 'representable range, value preserved, wrap = v mod 2^BITS, two's complement'."),
    "C08": ("spec/UintBytes.tla", "All 9 encoders, 6 round trips, copy-into-buffer forms (buffer compared byte for byte) and "
            "try_from_be/le_slice, from_*_slice, from_*_bytes on arbitrary byte strings of length 0..BYTES+8 are validated by "
            "TLC against the positional definition; never-panic is part of the contract."),
    "C09": ("spec/UintText.tla", "to_base_le/be, from_base_le/be (errors as sets of allowed outcomes where the property leaves "
            "precedence open), from_str / from_str_radix over radices 0..=65 and both alphabets, and Display/Debug/Binary/Octal/"
            "LowerHex/UpperHex over a grid of 6 traits x 8 flag sets x 7 fill/alignment forms x widths are validated by TLC against "
            "positional notation and a TLA+ model of Formatter::pad_integral; the primitive u128's own output is validated by the "
            "same action (reference binding)."),
    "C10": ("spec/UintMath.tla CheckModular/CheckPowMod/CheckInvMod", "reduce_mod, add_mod, mul_mod, pow_mod, inv_mod validated by "
            "TLC in witness form (x = k*m + r, r < m; a*x = 1 + k*m; common-divisor witness for None) with quotient witnesses "
            "from Python integers; all (a,b,m) at BITS<=4."),
    "C11": ("spec/UintMath.tla CheckRedc, spec/Kernels.tla CheckKRedc", "mul_redc/square_redc (array kernels N=1..16 and Uint "
            "methods) validated by TLC against r < m and r*2^(64N) = a*b + k*m (signed witness k); the specification re-checks "
            "the preconditions (m odd >= 3, a,b < m, inv*m0 = -1 mod 2^64); moduli at the 2^62 / 2^63 carry thresholds and at the edge of the narrow squaring path (top limb ceil(2^64/3) + d with the "
            "reduction factor forced to 2^64-1), the edge itself model-checked at small limb widths (algo/Redc *_edge_* / *_pastedge_*)."),
    "C12": ("spec/UintMath.tla CheckGcd, spec/Kernels.tla CheckLehmer*", "gcd, lcm, gcd_extended validated by TLC with Bezout "
            "witnesses (g*a1 = a, g*b1 = b, |u*a1 - v*b1| = 1); Lehmer matrices (from, from_u64, prefix forms checked on several "
            "extensions of the prefix, apply, apply_u128, compose) validated against 'identity, or unimodular with c >= d >= 0, "
            "d < b over the integers'."),
    "C13": ("spec/UintMath.tla CheckPow/CheckLog/CheckLog210/CheckRoot", "pow family validated against a^e mod 2^BITS and the exact "
            "overflow predicate; log/log2/log10/checked forms against b^k <= v < b^(k+1) and 'no panic at any width'; root against "
            "r^d <= v < (r+1)^d, with hang detection; exhaustive at BITS<=6 (root: BITS<=8, degrees 0..BITS+2)."),
    "C16": ("spec/Codecs.tla CheckEnc16/CheckRef16/CheckFixed16", "For every integration the bytes produced, every advertised length / "
            "upper bound and the decode of those bytes are validated by TLC against encoders written in TLA+ from each FORMAT's "
            "definition (RLP, SCALE fixed+compact, SSZ, borsh, DER, JSON quantity, bincode, 17 postgres wire types, BigUint/BigInt, "
            "ark-ff, primitive-types, bytemuck); the codec crates' own u64/u128 encodings are validated by the same encoders."),
    "C17": ("spec/Codecs.tla CheckDec17", "Every decoder is run on every generated input (valid encodings of every format x "
            "single-field mutations, hostile headers, random strings); TLC checks: no panic / hang; an accepted value is canonical and "
            "is what the input denotes under the format; alloy-rlp, fastrlp and DER accept exactly the canonical encoding "
            "(Ok <=> re-encoding equals the bytes consumed); asserting ark-ff constructors panic rather than yield a value."),
    "C18": ("spec/UintFloat.tla", "try_from/from/wrapping_from/saturating_from for f64 and f32 bit patterns validated by TLC against "
            "exact floor(f + 1/2) from the decoded IEEE-754 fields, NaN / negative / too-large classification; f64::from / f32::from "
            "on ascending runs of values validated against 'one of the two representable neighbours, exact if representable, "
            "+inf only beyond the rounding range, monotone' (also at 65700 and 70000 bits, beyond the compiled width list)."),
    "C14": ("spec/Kernels.tla CheckKDiv*", "algorithms::div on every combination of slice lengths 1..12 and zero padding, the "
            "specialised kernels inside their preconditions, reciprocal/reciprocal_2 on every table row plus divisors computed from the published algorithm (table-perturbation search, rounding jumps of the first Newton step), validated by TLC "
            "against the Euclidean relation / the reciprocal's defining inequalities (multiplication and comparison only)."),
    "C15": ("spec/Kernels.tla CheckKAddMul/CheckKNx1/CheckKWord/CheckKShift", "addmul (flag exact), addmul_n, the nx1 family, adc_n, "
            "sbb_n, single-word primitives, small shifts and cmp validated by TLC against balance equations "
            "'inputs = result limbs +- returned word * 2^(64 len)'."),
    "C19": ("spec/Literal.tla Classify", "Every literal token is compiled inside and outside uint! / uint_with_path! as a one-function "
            "probe program (nesting depth 0..3); the observation (expanded constant with width and limbs / compile error / passed "
            "through unchanged) and the run-time parse of the same digits are validated by TLC against Classify, the TLA+ reference "
            "semantics of the literal grammar.", "translation_validation",
            "TLA+ reference semantics of the literal transformer (Literal.tla) + TLC validation of observations from compiled probe programs"),
    "C20": ("spec/Facade.tla", "Every facade entry point (num-traits ~40 traits incl. PrimInt/ToPrimitive/FromPrimitive/NumCast/Num, "
            "num-integer Integer, subtle ct_eq/ct_gt/ct_lt/select/assign/swap/negate + bit_ct, ~60 forwarded Bits methods and "
            "operators, zeroize) is recorded next to the inherent method on the same operands and validated by TLC with the Layer-1 "
            "action of that inherent method (or required to equal the recorded inherent result where the contract is relational); "
            "the 6 operator-impl shapes and Sum/Product come from the arith/bits events; all pairs at BITS<=4, asymmetric operands "
            "elsewhere."),
}

PENDING = {
}


def main():
    hooks = []
    try:
        log = subprocess.run(["git", "-C", "/repo", "log", "--format=%h %s"], capture_output=True, text=True).stdout
        hooks = [l.split()[0] for l in log.splitlines() if l.split(" ", 1)[1].startswith("verif hooks")]
    except Exception:
        pass
    checks = []
    for pid in sorted(CHECKS):
        ref, text = CHECKS[pid][0], CHECKS[pid][1]
        level = CHECKS[pid][2] if len(CHECKS[pid]) > 2 else "model_checking"
        tech = CHECKS[pid][3] if len(CHECKS[pid]) > 3 else TECH
        checks.append({
            "property_id": pid,
            "quick_cmd": f"./check {pid} --tier quick",
            "thorough_cmd": f"./check {pid} --tier thorough",
            "evidence_file": f"/verif/evidence/{pid}.json",
            "replay_cmd_template": f"./check {pid} --replay {{path}}",
            "engine": "tlc-trace",
            "level_claimed": {"category": level, "text": text, "design_ref": f"DESIGN.md 7 {pid}; {ref}"},
            "level_note": TRUST,
            "technique": tech,
        })
    man = {
        "version": 1,
        "setup_cmd": "cd /verif && ./check --setup",
        "hooks": {
            "guard": "recmo_uint_verif",
            "enable": "RUSTFLAGS --cfg recmo_uint_verif, set in /verif/harness/.cargo/config.toml (the executor is a path-dependency build of /repo's working tree)",
            "baseline_off_cmd": "cd /repo && cargo test --workspace --no-fail-fast --offline",
            "source_commits": hooks,
            "add_only": True,
        },
        "engines": [
            {"name": "tlc-trace", "path": "spec/Trace.tla", "serves_properties": sorted(CHECKS),
             "kind_free_text": "TLC trace validation of events recorded from the real code against the Layer-1 TLA+ contract (BigNat arithmetic in pure TLA+), sharded over 16 single-worker TLC processes"},
            {"name": "ux", "path": "harness/", "serves_properties": sorted(CHECKS),
             "kind_free_text": "Rust executor binaries ux_<group>: scenario line -> real ruint API call under catch_unwind -> event line; hang/crash supervision"},
            {"name": "tlc-machine", "path": "spec/UintMachine.tla", "serves_properties": ["C04"],
             "kind_free_text": "TLC exhaustive model checking and simulation of the register-machine specification; transitions and histories replayed on the real code by harness ux_mach"},
            {"name": "probes", "path": "lib/props/C19.py, lib/props/C04.py", "serves_properties": ["C04", "C19"],
             "kind_free_text": "generated probe programs compiled by cargo/rustc against the working tree (uint! literals; ill-formed Uint types)"},
            {"name": "tlc-machine-trace", "path": "spec/MachineTrace.tla", "serves_properties": ["C04"],
             "kind_free_text": "TLC trace validation of register-file histories chosen and executed by the implementation-side driver (ux_mach kind d) against UintMachine!Apply"},
            {"name": "tlc-layer2", "path": "algo/", "serves_properties": ["C02", "C03", "C04", "C05", "C06", "C09", "C10", "C11", "C12", "C13", "C14", "C15", "C18"],
             "kind_free_text": "design-level TLA+ models of the limb algorithms with the limb width as a constant (Knuth, MG10, Div, Redc, LimbShift, AddMul, InvRing, Lehmer, Pow, Root, Log, BaseConv, Fmt, Float), model-checked exhaustively by ./check --setup; they never change a check's exit code"},
            {"name": "tlc-mc", "path": "spec/MC_BigNat.tla", "serves_properties": sorted(CHECKS),
             "kind_free_text": "TLC model checking of the specification's own arithmetic against native integers"},
            {"name": "tlc-mc-oracles", "path": "spec/MC_Codecs.tla", "serves_properties": ["C09", "C16", "C17", "C18"],
             "kind_free_text": "TLC model checking of the oracles' self-consistency, no implementation in the loop: spec/MC_Codecs.tla (every encoder against its denotation for all values of small widths; generative against analytic acceptance for all short byte strings) spec/MC_Text.tla (formatter output against the parser contracts and native digits) and spec/MC_Float.tla (the float definitions instantiated with tiny formats: every bit pattern against every integer, formulas against characterising inequalities on native integers); run by ./check --setup"},
        ],
        "checks": checks,
        "not_applicable": [{"property_id": k, "reason": v} for k, v in sorted(PENDING.items()) if k not in CHECKS],
        "notes": "Checks print KNOWN-FINDING lines for entries of known_findings.jsonl and VIOLATION lines with replay files under out/replay/. Exit 2 = tool error.",
    }
    with open(os.path.join(VERIF, "MANIFEST.json"), "w") as fh:
        json.dump(man, fh, indent=1)
    print("MANIFEST.json:", len(checks), "checks,", len(man["not_applicable"]), "not applicable")


if __name__ == "__main__":
    main()
