"""./check --setup : build the executor from files on disk, parse the specification, model-check BigNat."""
import glob
import os
import re
import subprocess
import sys

from . import vlib


def main():
    bins = sorted(os.path.basename(p)[:-3] for p in glob.glob(os.path.join(vlib.HARNESS, "src", "bin", "*.rs")))
    try:
        t = vlib.build(bins)
        print(f"built {len(bins)} executor binaries in {t:.0f}s")
        # the --release executors (quick tier: scenarios with panicking calls + a sample; thorough tier: everything again)
        t = vlib.build(bins, release=True)
        print(f"built {len(bins)} executor binaries (--release) in {t:.0f}s")
    except vlib.ToolError as e:
        sys.stderr.write(f"setup: {e}\n")
        return 2
    rc = 0
    for mod in ["Trace.tla"]:
        r = subprocess.run(["java", "-cp", vlib.TLA_CP, "tla2sany.SANY", mod], cwd=vlib.SPEC, capture_output=True, text=True)
        if "Semantic errors" in r.stdout or "Fatal errors" in r.stdout or "error" in r.stdout.lower() and "0 error" not in r.stdout.lower() and "Could not" in r.stdout:
            sys.stderr.write(r.stdout[-2000:])
            rc = 2
    meta = os.path.join(vlib.OUT, "mc_bignat")
    r = subprocess.run(vlib.tlc_cmd("MC_BigNat.tla", "MC_BigNat.cfg", meta, workers=8, gc="-XX:+UseParallelGC"),
                       cwd=vlib.SPEC, capture_output=True, text=True)
    if "No error has been found" not in r.stdout:
        sys.stderr.write(r.stdout[-3000:])
        rc = 2
    else:
        print("MC_BigNat:", vlib.parse_tlc_stats(r.stdout))
    # soundness of the witness-form contracts: five lemmas checked by the TLA+ proof system (DESIGN.md 2.1)
    try:
        r = subprocess.run(["tlapm", "--threads", "4", "--cleanfp", "Witness.tla"], cwd=os.path.join(vlib.SPEC, "proofs"),
                           capture_output=True, text=True, timeout=600)
        m = re.search(r"All (\d+) obligations proved", r.stdout + r.stderr)
        if not m:
            sys.stderr.write("setup: TLAPS did not prove spec/proofs/Witness.tla\n" + (r.stdout + r.stderr)[-1500:])
            rc = 2
        else:
            print("spec/proofs/Witness.tla:", m.group(1), "proof obligations proved by tlapm")
    except (OSError, subprocess.TimeoutExpired) as e:
        sys.stderr.write(f"setup: tlapm could not be run on spec/proofs/Witness.tla: {e}\n")
        rc = 2
    # Layer-2 models, small instances (design-level; DESIGN.md 8)
    algo = os.path.join(vlib.VERIF, "algo")
    layer2 = {}
    for mod, cfg in (("Knuth", "Knuth_small"), ("Redc", "Redc_small"), ("Redc", "Redc_square_small"), ("Redc", "Redc_square_3limb"), ("LimbShift", "LimbShift_small"), ("AddMul", "AddMul_small"),
                     ("MG10", "MG10_2x1_small"), ("MG10", "MG10_3x2_small"), ("MG10", "MG10_recip2_small"),
                     ("Lehmer", "Lehmer_prefix_small"), ("Lehmer", "Lehmer_full_small"), ("Lehmer", "Lehmer_ext_small"),
                     ("Lehmer", "Lehmer_ext_narrow"), ("Lehmer", "Lehmer_inv_small"), ("Root", "Root_small"), ("InvRing", "InvRing_small"), ("InvRing", "InvRing_w8"), ("Fmt", "Fmt_small"), ("Div", "Div_small"), ("Log", "Log_small"), ("Float", "Float_to_small"), ("Float", "Float_from_small"),
                     ("Pow", "Pow_pow_small"), ("Pow", "Pow_powmod_small"), ("Pow", "Pow_addmod_small"),
                     ("BaseConv", "BaseConv_spigot_small"), ("BaseConv", "BaseConv_le_small"), ("BaseConv", "BaseConv_be_small")):
        meta = os.path.join(vlib.OUT, "algo_" + cfg)
        try:
            r = subprocess.run(vlib.tlc_cmd(mod + ".tla", cfg + ".cfg", meta, workers=8, gc="-XX:+UseParallelGC", xmx="6g"),
                               cwd=algo, capture_output=True, text=True, timeout=900)
        except subprocess.TimeoutExpired:
            sys.stderr.write(f"setup: Layer-2 model {cfg} timed out\n")
            rc = 2
            continue
        if "No error has been found" not in r.stdout:
            sys.stderr.write(f"setup: Layer-2 model {cfg} failed\n" + r.stdout[-1500:])
            rc = 2
        else:
            print(f"algo/{cfg}:", vlib.parse_tlc_stats(r.stdout))
            layer2[cfg] = dict(vlib.parse_tlc_stats(r.stdout), result="no invariant violated")
    # Instances that MUST be refuted: a selector threshold one step past the edge of validity that the neighbouring instance
    # establishes (the narrow carry path of square_redc is valid for top limbs below ceil(B/3) (+1 for N = 2), the dropped carry
    # of mul_redc below B/2 (+1 for N = 2)).  The W = 64 images of these edges are what C11's aimed generators use.
    for mod, ok_cfg, bad_cfg in (("Redc", "Redc_square_edge_n2", "Redc_square_pastedge_n2"), ("Redc", "Redc_square_edge_n3", "Redc_square_pastedge_n3"),
                                 ("Redc", "Redc_mul_edge_n2", "Redc_mul_pastedge_n2")):
        for cfg, want_violation in ((ok_cfg, False), (bad_cfg, True)):
            meta = os.path.join(vlib.OUT, "algo_" + cfg)
            try:
                r = subprocess.run(vlib.tlc_cmd(mod + ".tla", cfg + ".cfg", meta, workers=8, gc="-XX:+UseParallelGC", xmx="6g"),
                                   cwd=algo, capture_output=True, text=True, timeout=900)
            except subprocess.TimeoutExpired:
                sys.stderr.write(f"setup: Layer-2 model {cfg} timed out\n")
                rc = 2
                continue
            violated = "is violated" in r.stdout
            clean = "No error has been found" in r.stdout
            if (want_violation and not violated) or (not want_violation and not clean):
                sys.stderr.write(f"setup: Layer-2 edge instance {cfg}: expected {'a violation' if want_violation else 'no violation'}\n" + r.stdout[-1200:])
                rc = 2
            else:
                print(f"algo/{cfg}:", "violated as expected" if want_violation else vlib.parse_tlc_stats(r.stdout))
                layer2[cfg] = ({"result": "invariant violated, as expected one step past the edge"} if want_violation
                               else dict(vlib.parse_tlc_stats(r.stdout), result="no invariant violated"))
    # self-consistency of the oracles: codecs (encoders against denotations, generative against analytic definitions) and
    # text (what the formatter may print against the parser contracts and native digits), floats (tiny formats, all patterns)
    for mod, cfg in (("MC_Codecs", "MC_Codecs_small"), ("MC_Text", "MC_Text_small"), ("MC_Float", "MC_Float_small")):
        meta = os.path.join(vlib.OUT, cfg.lower())
        try:
            r = subprocess.run(vlib.tlc_cmd(mod + ".tla", cfg + ".cfg", meta, workers=8, gc="-XX:+UseParallelGC", xmx="6g"),
                               cwd=vlib.SPEC, capture_output=True, text=True, timeout=900)
            if "No error has been found" not in r.stdout:
                sys.stderr.write(f"setup: {cfg} failed\n" + r.stdout[-1500:])
                rc = 2
            else:
                print(f"spec/{cfg}:", vlib.parse_tlc_stats(r.stdout))
                layer2[cfg] = dict(vlib.parse_tlc_stats(r.stdout), result="no invariant violated")
        except subprocess.TimeoutExpired:
            sys.stderr.write(f"setup: {cfg} timed out\n")
            rc = 2
    import json
    with open(os.path.join(vlib.OUT, "layer2.json"), "w") as fh:
        json.dump(layer2, fh, indent=1)
    return rc
