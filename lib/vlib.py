"""Orchestration for the model-based verification of recmo/uint.

scenario generation (Python, inputs only) -> executor (Rust, real code) ->
events -> TLC validates every event against the TLA+ Layer-1 contract.
Nothing in this file decides a property: the verdict on every event is TLC's.
"""
import hashlib
import json
import os
import random
import re
import shutil
import subprocess
import sys
import time

VERIF = os.path.dirname(os.path.dirname(os.path.abspath(__file__)))
REPO = os.environ.get("VERIF_REPO", "/repo")
HARNESS = os.path.join(VERIF, "harness")
SPEC = os.path.join(VERIF, "spec")
OUT = os.path.join(VERIF, "out")
NCPU = min(16, os.cpu_count() or 4)

WIDTHS = [0, 1, 2, 3, 4, 5, 6, 7, 8, 9, 13, 16, 31, 32, 33, 60, 63, 64, 65, 72, 100, 127, 128,
          129, 160, 192, 250, 255, 256, 257, 320, 384, 440, 448, 512, 521, 535, 536, 576, 1024,
          1100, 4096]


class ToolError(Exception):
    pass


def nlimbs(bits):
    return (bits + 63) // 64


def tobytes(n):
    """int -> trimmed little-endian byte list (the BigNat of the specification)."""
    assert n >= 0
    return list(n.to_bytes((n.bit_length() + 7) // 8, "little"))


def frombytes(b):
    return int.from_bytes(bytes(b), "little")


# --------------------------------------------------------------------------
# value classes
# --------------------------------------------------------------------------
LIMB_ALPHABET = [0, 1, 2**63 - 1, 2**63, 2**64 - 2, 2**64 - 1]


def boundary_values(bits):
    """Deterministic boundary values of a width: extremes, powers of two and
    their neighbours at every limb boundary +-1, limb-alphabet products."""
    if bits == 0:
        return [0]
    m = (1 << bits) - 1
    vals = {0, 1, 2, 3, m, m - 1, m >> 1, (m >> 1) + 1, (m >> 1) + 2}
    ks = {0, 1, 7, 8, 31, 32, 33, bits - 1, bits - 2, bits // 2}
    for lb in range(64, bits + 64, 64):
        ks.update({lb - 1, lb, lb + 1})
    for k in ks:
        if 0 <= k < bits:
            vals.update({1 << k, (1 << k) - 1, (1 << k) + 1, m ^ (1 << k), m ^ ((1 << k) - 1)})
    L = nlimbs(bits)
    if L <= 2:
        alpha = LIMB_ALPHABET
    elif L <= 4:
        alpha = [0, 2**63, 2**64 - 1]
    else:
        alpha = None
    if alpha:
        import itertools
        for limbs in itertools.product(alpha, repeat=L):
            v = 0
            for i, x in enumerate(limbs):
                v |= x << (64 * i)
            vals.add(v & m)
    else:
        for k in range(L + 1):
            for j in range(L + 1 - k):
                # k low zero limbs, j high zero limbs, rest all ones
                v = ((1 << (64 * (L - j))) - 1) & ~((1 << (64 * k)) - 1)
                vals.add(v & m)
    return sorted(v & m for v in vals)


def rand_value(rng, bits):
    """Random value with each limb independently replaced by an alphabet limb w.p. 1/2."""
    if bits == 0:
        return 0
    L = nlimbs(bits)
    v = 0
    for i in range(L):
        if rng.random() < 0.5:
            x = rng.choice(LIMB_ALPHABET)
        else:
            x = rng.getrandbits(64)
        v |= x << (64 * i)
    v &= (1 << bits) - 1
    mode = rng.random()
    if mode < 0.15:
        v >>= rng.randrange(0, bits)          # short values
    elif mode < 0.25:
        v = (v << rng.randrange(0, bits)) & ((1 << bits) - 1)   # zero low limbs
    return v


def values(bits, rng, nrand):
    vs = boundary_values(bits)
    if bits > 0:
        vs = vs + [rand_value(rng, bits) for _ in range(nrand)]
    return vs


def pairs(bits, rng, npairs, exhaustive_upto=6):
    """All pairs for tiny widths, otherwise boundary x boundary (capped) plus random pairs."""
    if bits <= exhaustive_upto:
        n = 1 << bits
        return [(a, b) for a in range(n) for b in range(n)]
    bv = boundary_values(bits)
    out = []
    if len(bv) ** 2 <= npairs:
        out = [(a, b) for a in bv for b in bv]
    else:
        core = [v for v in bv if v < 4 or v > (1 << bits) - 4 or (v & (v - 1)) == 0][:12]
        out = [(a, b) for a in core for b in core]
        while len(out) < npairs * 2 // 3:
            out.append((rng.choice(bv), rng.choice(bv)))
    while len(out) < npairs:
        out.append((rand_value(rng, bits), rand_value(rng, bits)))
    return out


# --------------------------------------------------------------------------
# build / freshness
# --------------------------------------------------------------------------
def repo_hash():
    h = hashlib.sha256()
    files = subprocess.run(["git", "-C", REPO, "ls-files", "-co", "--exclude-standard"],
                           capture_output=True, text=True).stdout.split("\n")
    for f in sorted(files):
        if not f or f.startswith("target/"):
            continue
        p = os.path.join(REPO, f)
        if os.path.isfile(p):
            h.update(f.encode())
            with open(p, "rb") as fh:
                h.update(fh.read())
    return h.hexdigest()


def repo_state():
    head = subprocess.run(["git", "-C", REPO, "rev-parse", "HEAD"], capture_output=True, text=True).stdout.strip()
    dirty = subprocess.run(["git", "-C", REPO, "status", "--porcelain"], capture_output=True, text=True).stdout.strip()
    return {"head": head, "dirty": bool(dirty)}


def build(bins, release=False):
    """Build the executor binaries against /repo's current working tree."""
    os.makedirs(OUT, exist_ok=True)
    lock = os.path.join(HARNESS, "Cargo.lock")
    if not os.path.exists(lock):
        shutil.copy(os.path.join(REPO, "Cargo.lock"), lock)
    stamp = os.path.join(HARNESS, "target", ".repo_hash")
    h = repo_hash()
    old = open(stamp).read() if os.path.exists(stamp) else None
    env = dict(os.environ, CARGO_NET_OFFLINE="true", RUST_BACKTRACE="0")
    if old is not None and old != h:
        # a restored tree may carry older mtimes than the build products: force a rebuild of the crates under test
        subprocess.run(["cargo", "clean", "--offline", "-p", "ruint", "-p", "ruint-macro"], cwd=HARNESS, env=env,
                       capture_output=True)
        if release:
            subprocess.run(["cargo", "clean", "--offline", "--release", "-p", "ruint", "-p", "ruint-macro"],
                           cwd=HARNESS, env=env, capture_output=True)
    cmd = ["cargo", "build", "--offline"] + (["--release"] if release else [])
    for b in bins:
        cmd += ["--bin", b]
    t0 = time.time()
    try:
        r = subprocess.run(cmd, cwd=HARNESS, env=env, capture_output=True, text=True, timeout=2400)
    except subprocess.TimeoutExpired:
        raise ToolError("cargo build of the executor did not finish in 40 minutes (a compile-time loop in the crate under test?)")
    if r.returncode != 0:
        sys.stderr.write(r.stderr[-6000:])
        raise ToolError("cargo build failed")
    os.makedirs(os.path.dirname(stamp), exist_ok=True)
    with open(stamp, "w") as fh:
        fh.write(h)
    return time.time() - t0


def bin_path(name, release=False):
    return os.path.join(HARNESS, "target", "release" if release else "debug", name)


# --------------------------------------------------------------------------
# executor supervision
# --------------------------------------------------------------------------
def count_lines(path):
    if not os.path.exists(path):
        return 0
    n = 0
    with open(path, "rb") as fh:
        for _ in fh:
            n += 1
    return n


def execute(binname, scen_path, ev_path, release=False, hang_secs=20):
    """Run the executor over a scenario file.  A hang or a crash of the code
    under test becomes an event (st = hang / crash) and execution resumes at
    the next line.  Returns dict(hangs=, crashes=)."""
    if os.path.exists(ev_path):
        os.remove(ev_path)
    total = count_lines(scen_path)
    stats = {"hangs": 0, "crashes": 0}
    scen_lines = None
    per_op_bad = {}
    start = 0
    env = dict(os.environ, RUST_BACKTRACE="0")
    dead_ops = []
    while start < total:
        r = subprocess.run([bin_path(binname, release), scen_path, ev_path, "--from", str(start),
                            "--hang-secs", str(hang_secs)] + (["--skip-ops", ",".join(dead_ops)] if dead_ops else []),
                           env=env, capture_output=True, text=True)
        if r.returncode == 0:
            break
        if r.returncode == 4:
            sys.stderr.write(r.stderr[-4000:])
            raise ToolError("executor harness error")
        done = count_lines(ev_path)
        # make sure the last line is complete
        with open(ev_path, "rb") as fh:
            data = fh.read()
        if data and not data.endswith(b"\n"):
            data = data[: data.rfind(b"\n") + 1]
            with open(ev_path, "wb") as fh:
                fh.write(data)
            done = data.count(b"\n")
        if scen_lines is None:
            with open(scen_path) as fh:
                scen_lines = fh.readlines()
        kind = "hang" if r.returncode == 3 else "crash"
        stats["hangs" if kind == "hang" else "crashes"] += 1
        scn = json.loads(scen_lines[done])
        scn["st"] = kind
        scn["pan"] = []
        with open(ev_path, "a") as fh:
            fh.write(json.dumps(scn, separators=(",", ":")) + "\n")
        start = done + 1
        key = scn.get("op")
        per_op_bad[key] = per_op_bad.get(key, 0) + 1
        if isinstance(key, str) and per_op_bad[key] >= 4 and key not in dead_ops:
            # a broken loop must not turn a short check into hours: every remaining scenario of this operation, wherever
            # it sits in the file, is answered "skipped" by the executor itself from now on
            dead_ops.append(key)
        if not isinstance(key, str) and per_op_bad[key] >= 6:
            # lines without an operation name (whole histories): after six hangs / crashes the rest of the file is skipped
            with open(ev_path, "a") as fh:
                while start < total:
                    s2 = json.loads(scen_lines[start])
                    s2["st"] = "skipped"
                    s2["pan"] = []
                    fh.write(json.dumps(s2, separators=(",", ":")) + "\n")
                    start += 1
    if count_lines(ev_path) != total:
        raise ToolError(f"executor produced {count_lines(ev_path)} events for {total} scenarios")
    return stats


# --------------------------------------------------------------------------
# negative controls
# --------------------------------------------------------------------------
def _corrupt(v):
    if isinstance(v, bool):
        return not v
    if isinstance(v, int):
        return v + 1
    if isinstance(v, str):
        return v + "x"
    if isinstance(v, list):
        if not v:
            return None  # empty byte string / None: shape unknown, do not touch
        if all(isinstance(x, str) for x in v):
            return None  # a bare error tag such as ["err"]: one-directional contracts do not pin it
        if isinstance(v[0], str) and len(v) > 1 and v[0] != "ok":
            # tagged error with a payload (["neg", payload]): the class is what contracts pin, payloads are often open
            return [v[0] + "x"] + list(v[1:])
        if isinstance(v[0], str) and len(v) > 1:
            # tagged result ["ok", value, ...]: corrupt the value, not the tag
            w = list(v)
            for i in range(1, len(w)):
                c = _corrupt(w[i])
                if c is not None:
                    w[i] = c
                    return w
            return None
        if all(isinstance(x, int) and not isinstance(x, bool) for x in v):
            w = list(v)
            w[0] ^= 1
            return w
        w = list(v)
        for i, x in enumerate(w):
            c = _corrupt(x)
            if c is not None:
                w[i] = c
                return w
        return None
    return None


def negative_control(ev, scen_keys, salt, skip_fields=()):
    """A copy of the event with one observed field corrupted, or None."""
    fields = sorted(k for k in ev if k not in scen_keys and k not in ("st", "pan", "cov") and k not in skip_fields)
    if not fields:
        return None
    h = int(hashlib.sha256(f"{salt}".encode()).hexdigest(), 16)
    for t in range(len(fields)):
        f = fields[(h + t) % len(fields)]
        c = _corrupt(ev[f])
        if c is not None:
            e2 = dict(ev)
            e2[f] = c
            e2["neg"] = f
            return e2
    return None


# --------------------------------------------------------------------------
# TLC
# --------------------------------------------------------------------------
MISMATCH_RE = re.compile(r'<<\s*"MISMATCH",\s*(\d+),\s*"([^"]*)",\s*\{([^}]*)\}\s*>>', re.S)


TLA_CP = "/opt/veriftools/tla/tla2tools.jar:/opt/veriftools/tla/CommunityModules-deps.jar"


def tlc_cmd(spec_file, cfg, metadir, workers=1, extra=(), xmx="3g", gc="-XX:+UseSerialGC"):
    # TLC unpacks its standard modules into a fresh java.io.tmpdir/tlc-* directory on every start and never removes it:
    # keep them under out/jtmp/<pid of this check> (removed when the check exits; per process, so that checks running
    # side by side never touch each other's files) instead of littering /tmp
    jtmp = os.path.join(OUT, "jtmp", str(os.getpid()))
    if not os.path.isdir(jtmp):
        os.makedirs(jtmp, exist_ok=True)
        import atexit
        atexit.register(shutil.rmtree, jtmp, True)
    return ["java", gc, "-Xss1g", f"-Xmx{xmx}", f"-Djava.io.tmpdir={jtmp}", "-cp", TLA_CP, "tlc2.TLC", "-workers", str(workers),
            "-metadir", metadir, "-cleanup", "-noGenerateSpecTE", "-config", cfg] + list(extra) + [spec_file]


def parse_tlc_stats(out):
    st = {"states": 0, "distinct": 0}
    m = re.search(r"(\d+) states generated, (\d+) distinct states found", out)
    if m:
        st["states"] = int(m.group(1))
        st["distinct"] = int(m.group(2))
    return st


def validate_shards(shard_paths, workdir, trace_spec="Trace", xmx="3g"):
    """Run one single-worker TLC per shard, in parallel.  Returns a list of
    (shard_index, [(line_no, op, [failing fields])], stats)."""
    procs = []
    results = []
    pending = list(enumerate(shard_paths))
    running = []
    maxpar = NCPU

    def launch(i, p):
        meta = os.path.join(workdir, f"meta_{i}")
        env = dict(os.environ, TRACE=p)
        env.pop("JAVA_TOOL_OPTIONS", None)
        cmd = tlc_cmd(f"{trace_spec}.tla", f"{trace_spec}.cfg", meta, xmx=xmx)
        logp = os.path.join(workdir, f"tlc_{i}.log")
        fh = open(logp, "w")
        pr = subprocess.Popen(cmd, cwd=SPEC, env=env, stdout=fh, stderr=subprocess.STDOUT)
        return (i, p, pr, fh, logp, meta)

    while pending or running:
        while pending and len(running) < maxpar:
            i, p = pending.pop(0)
            running.append(launch(i, p))
        time.sleep(0.05)
        still = []
        for item in running:
            i, p, pr, fh, logp, meta = item
            if pr.poll() is None:
                still.append(item)
                continue
            fh.close()
            out = open(logp).read()
            shutil.rmtree(meta, ignore_errors=True)
            mism = []
            for m in MISMATCH_RE.finditer(out):   # TLC wraps long tuples over several lines
                fields = [x.strip().strip('"') for x in m.group(3).split(",") if x.strip()]
                mism.append((int(m.group(1)), m.group(2), fields))
            nlines = count_lines(p)
            st = parse_tlc_stats(out)
            ok = "Model checking completed. No error has been found." in out
            if not ok or st["distinct"] != nlines + 1:
                sys.stderr.write(out[-3000:])
                raise ToolError(f"TLC did not consume shard {p} ({st}, {nlines} lines); see {logp}")
            results.append((i, mism, st))
        running = still
    results.sort()
    return results


DEFAULT_ASSUMPTIONS = [
    "the verdict on every event is the TLA+ Layer-1 contract evaluated by TLC (pure TLA+ BigNat arithmetic, model-checked against TLC's native integers by MC_BigNat)",
    "'all BITS' is the fixed list of compiled widths (DESIGN.md 4.3); 'all inputs' is exhaustive only at BITS<=6, otherwise boundary-class products, adversarial constructions and seeded random values",
    "only the little-endian 64-bit configuration of this sandbox is executed",
    "the executor (harness/) reports what the real API returned: raw limbs via as_limbs(), panics via catch_unwind",
]


def strip_observed(ev):
    """Scenario part of a replay event: everything the executor did not add."""
    obs = set(ev.get("_obs", []))
    return {k: v for k, v in ev.items() if k not in obs and k not in ("st", "pan", "neg", "_obs")}


def limb_pattern_pairs(bits, rng, count):
    """Pairs (a, b) whose limbs are related position by position by a pattern over {<, =, >} (all 3^L patterns for
    L <= 3, sampled above): comparisons that scan limbs in the wrong order, lose the 'equal so far' state or drop a
    borrow at an all-ones limb are only visible on such operands."""
    import itertools
    L = nlimbs(bits)
    if L < 2:
        return []
    mx = (1 << bits) - 1
    pats = list(itertools.product("<=>", repeat=L)) if L <= 3 else [tuple(rng.choice("<=>") for _ in range(L)) for _ in range(count)]
    out = []
    for pat in pats:
        for _ in range(max(1, count // max(len(pats), 1))):
            a = b = 0
            for i, rel in enumerate(pat):
                x = rng.choice([0, 1, 2**63, 2**64 - 2, 2**64 - 1, rng.getrandbits(64)])
                if rel == "=":
                    y = x
                elif rel == "<":
                    x = min(x, 2**64 - 2)
                    y = rng.choice([x + 1, 2**64 - 1])
                else:
                    x = max(x, 1)
                    y = rng.choice([x - 1, 0])
                a |= x << (64 * i)
                b |= y << (64 * i)
            out.append((a & mx, b & mx))
    return out
