"""Witnesses for the witness-form contracts of the specification (UintMath.tla, Kernels.tla).
They are computed from the scenario INPUTS only, with Python integers, and are untrusted:
the specification checks the relation they witness, so a wrong witness can only cause a
rejection, never the acceptance of a wrong result."""
import math

from .vlib import tobytes


def egcd(a, b):
    """(g, s, t) with s*a + t*b = g."""
    s0, s1, t0, t1 = 1, 0, 0, 1
    while b:
        q = a // b
        a, b = b, a - q * b
        s0, s1 = s1, s0 - q * s1
        t0, t1 = t1, t0 - q * t1
    return a, s0, t0


def gcd_witness(a, b):
    if a == 0 and b == 0:
        return {"a1": [], "b1": [], "u": [], "v": [], "pos": True}
    g = math.gcd(a, b)
    a1, b1 = a // g, b // g
    _, s, t = egcd(a1, b1)
    assert s * a1 + t * b1 == 1
    if s >= 0 and t <= 0:
        pos, u, v = True, s, -t
    elif s <= 0 and t >= 0:
        pos, u, v = False, -s, t
    else:  # cannot happen for a Bezout pair of non-negative numbers, but stay safe
        raise AssertionError
    return {"a1": tobytes(a1), "b1": tobytes(b1), "u": tobytes(u), "v": tobytes(v), "pos": pos}


def modular_witness(a, b, m):
    if m == 0:
        return {"kr": [], "ka": [], "km": []}
    return {"kr": tobytes(a // m), "ka": tobytes((a + b) // m), "km": tobytes((a * b) // m)}


def powmod_witness(a, e, m):
    if m <= 1:
        return {"ks": []}
    ks = [1 // m]
    acc = 1 % m
    for i in reversed(range(e.bit_length())):
        x = acc * acc
        ks.append(x // m)
        acc = x % m
        if (e >> i) & 1:
            x = acc * a
            ks.append(x // m)
            acc = x % m
    return {"ks": [tobytes(k) for k in ks]}


def invmod_witness(a, m):
    if m < 2:
        return {}
    g = math.gcd(a, m)
    if g == 1:
        x = pow(a, -1, m)
        return {"k": tobytes((a * x - 1) // m)}
    return {"c": tobytes(g), "a1": tobytes(a // g), "m1": tobytes(m // g)}


def signed(k):
    return [k < 0, tobytes(abs(k))]


def redc_witness(a, b, m, nlimbs_):
    R = 1 << (64 * nlimbs_)
    rinv = pow(R, -1, m)
    r = (a * b * rinv) % m
    km = (r * R - a * b) // m
    assert km * m == r * R - a * b
    r2 = (a * a * rinv) % m
    ks = (r2 * R - a * a) // m
    return {"km": signed(km), "ks": signed(ks)}
