"""Format encoders used ONLY to generate decoder inputs (valid encodings and their mutations).
They decide nothing: every event is judged by spec/Codecs.tla."""


def be_min(v):
    return list(v.to_bytes((v.bit_length() + 7) // 8, "big"))


def rlp_str(p):
    if len(p) == 1 and p[0] < 128:
        return list(p)
    if len(p) <= 55:
        return [128 + len(p)] + list(p)
    lb = be_min(len(p))
    return [183 + len(lb)] + lb + list(p)


def rlp(v):
    return rlp_str(be_min(v))


def scale_compact(v):
    if v < 1 << 6:
        return [v << 2]
    if v < 1 << 14:
        return list(((v << 2) | 1).to_bytes(2, "little"))
    if v < 1 << 30:
        return list(((v << 2) | 2).to_bytes(4, "little"))
    b = list(v.to_bytes((v.bit_length() + 7) // 8, "little"))
    return [3 + ((len(b) - 4) << 2)] + b


def scale_fixed(v, nbytes):
    return scale_compact(nbytes) + list(v.to_bytes(nbytes, "little"))


def der_content(v):
    b = be_min(v)
    if not b:
        return [0]
    return [0] + b if b[0] >= 128 else b


def der_len(l):
    if l < 128:
        return [l]
    lb = be_min(l)
    return [128 + len(lb)] + lb


def der(v):
    c = der_content(v)
    return [2] + der_len(len(c)) + c


def json_q(v):
    return [ord(c) for c in '"' + hex(v) + '"']


def bincode(v, nbytes):
    return list(nbytes.to_bytes(8, "little")) + list(v.to_bytes(nbytes, "big"))


def pg_numeric(v):
    ds = []
    while v:
        ds.append(v % 10000)
        v //= 10000
    ds.reverse()
    weight = max(len(ds) - 1, 0)
    while ds and ds[-1] == 0:
        ds.pop()
    out = list(len(ds).to_bytes(2, "big")) + list(weight.to_bytes(2, "big")) + [0, 0, 0, 0]
    for d in ds:
        out += list(d.to_bytes(2, "big"))
    return out


def pg_bits(v, bits):
    nb = (bits + 7) // 8
    return list(bits.to_bytes(4, "big")) + list((v << (8 * nb - bits)).to_bytes(nb, "big"))
