#!/usr/bin/env python3
"""Development tool: syntactic mutation campaign against the checks (never part of a registered command).

  mutate.py setup                      copy /repo and /verif to a scratch area (default /tmp/mut) so that the campaign
                                       never touches /repo; the scratch harness depends on the scratch repository
  mutate.py run [--n N] [--seed S] [--files f1,f2] [--suite]
                                       draw N single-token mutants of the files anchored in the properties, run the
                                       quick checks mapped to the file against each, append one JSON line per mutant to
                                       /verif/seeded/auto/results.jsonl; with --suite a survivor is also run against the
                                       pinned test suite (a mutant the suite kills is not a gap of interest)
  mutate.py report                     summarise results.jsonl

A mutant is KILLED when a mapped check exits 1 (VIOLATION) — exit 2 is recorded as a tool error, never as a kill."""
import json
import os
import random
import re
import shutil
import subprocess
import sys
import time

VERIF = os.path.dirname(os.path.dirname(os.path.abspath(__file__)))
SCR = os.environ.get("MUT_SCRATCH", "/tmp/mut")
RES = os.path.join(VERIF, "seeded", "auto", "results.jsonl")

# file (relative to the repository) -> checks that are expected to notice a change there
MAP = {
    "src/add.rs": ["C01"], "src/mul.rs": ["C02"], "src/div.rs": ["C03"], "src/special.rs": ["C03", "C06"],
    "src/cmp.rs": ["C04"], "src/lib.rs": ["C04", "C07"], "src/bits.rs": ["C05", "C06"], "src/from.rs": ["C07", "C18"],
    "src/bytes.rs": ["C08"], "src/base_convert.rs": ["C09"], "src/string.rs": ["C09"], "src/fmt.rs": ["C09"],
    "src/modular.rs": ["C10", "C11"], "src/algorithms/mul_redc.rs": ["C11"], "src/gcd.rs": ["C12"],
    "src/algorithms/gcd/mod.rs": ["C12", "C10"], "src/algorithms/gcd/matrix.rs": ["C12"],
    "src/pow.rs": ["C13"], "src/log.rs": ["C13"], "src/root.rs": ["C13"],
    "src/algorithms/div/mod.rs": ["C14", "C03"], "src/algorithms/div/knuth.rs": ["C14", "C03"],
    "src/algorithms/div/small.rs": ["C14", "C03"], "src/algorithms/div/reciprocal.rs": ["C14"],
    "src/algorithms/add.rs": ["C15"], "src/algorithms/mul.rs": ["C15", "C02"], "src/algorithms/shift.rs": ["C15"],
    "src/algorithms/ops.rs": ["C15"], "src/algorithms/mod.rs": ["C15", "C14"],
    "src/bit_arr.rs": ["C20"], "src/macros.rs": ["C20", "C01"], "src/utils.rs": ["C16", "C09"],
    "src/support/alloy_rlp.rs": ["C16", "C17"], "src/support/rlp.rs": ["C16", "C17"], "src/support/fastrlp_03.rs": ["C16", "C17"],
    "src/support/fastrlp_04.rs": ["C16", "C17"], "src/support/scale.rs": ["C16", "C17"], "src/support/ssz.rs": ["C16", "C17"],
    "src/support/borsh.rs": ["C16", "C17"], "src/support/der.rs": ["C16", "C17"], "src/support/serde.rs": ["C16", "C17"],
    "src/support/num_bigint.rs": ["C16", "C17"], "src/support/postgres.rs": ["C16", "C17"], "src/support/ark_ff.rs": ["C16", "C17"],
    "src/support/ark_ff_04.rs": ["C16", "C17"], "src/support/primitive_types.rs": ["C16"], "src/support/bytemuck.rs": ["C16"],
    "src/support/num_traits.rs": ["C20"], "src/support/num_integer.rs": ["C20"], "src/support/subtle.rs": ["C20"],
    "src/support/rand.rs": ["C04"], "src/support/rand_09.rs": ["C04"], "src/support/arbitrary.rs": ["C04"],
    "src/support/proptest.rs": ["C04"], "src/support/quickcheck.rs": ["C04"],
    "ruint-macro/src/lib.rs": ["C19"],
}

# (regex, replacement, name); applied to ONE occurrence on ONE code line
OPS = [
    (r" >= ", " > ", "ge->gt"), (r" > ", " >= ", "gt->ge"), (r" <= ", " < ", "le->lt"), (r" < ", " <= ", "lt->le"),
    (r" == ", " != ", "eq->ne"), (r" != ", " == ", "ne->eq"), (r" && ", " || ", "and->or"), (r" \|\| ", " && ", "or->and"),
    (r" \+ 1\b", " + 2", "+1->+2"), (r" \+ 1\b", "", "+1->"), (r" - 1\b", " - 2", "-1->-2"), (r" - 1\b", "", "-1->"),
    (r" << ", " >> ", "shl->shr"), (r" >> ", " << ", "shr->shl"), (r" \| ", " & ", "or->andb"), (r" & ", " | ", "andb->or"),
    (r" \^ ", " | ", "xor->or"), (r"\bwrapping_add\b", "wrapping_sub", "wadd->wsub"), (r"\bwrapping_sub\b", "wrapping_add", "wsub->wadd"),
    (r"\btrue\b", "false", "true->false"), (r"\bfalse\b", "true", "false->true"), (r"\b63\b", "62", "63->62"), (r"\b64\b", "63", "64->63"),
    (r"\b0\b", "1", "0->1"), (r"\b1\b", "0", "1->0"), (r"\bBITS\b", "(BITS + 1)", "BITS->BITS+1"), (r"\bLIMBS\b", "(LIMBS - 1)", "LIMBS->LIMBS-1"),
    (r"!self\b", "self", "not->id"), (r"\.is_zero\(\)", ".is_zero() == false", "is_zero->not"),
    (r" \* ", " + ", "mul->add"), (r" \+ ", " - ", "add->sub"), (r" - ", " + ", "sub->add"), (r" % ", " / ", "rem->div"),
    (r"\bSome\((\w+)\)", r"None::<_>.or(Some(\1)).filter(|_| false)", "some->none"),
    (r"\bMASK\b", "u64::MAX", "MASK->MAX"),
]
# second operator family (campaign 2): ranges, loop control, statement deletion, method swaps
OPS2 = [
    (r"\.\.=", "..", "incl->excl"), (r"(?<=[\w)])\.\.(?=[\w(])", "..=", "excl->incl"), (r"\.rev\(\)", "", "rev->"),
    (r"\bbreak\b", "continue", "break->continue"), (r"\bcontinue\b", "break", "continue->break"),
    (r"\bwrapping_mul\b", "wrapping_add", "wmul->wadd"), (r"\bsaturating_(add|sub|mul|shl)\b", r"wrapping_\1", "sat->wrap"),
    (r"\bmin\(", "max(", "min->max"), (r"\bmax\(", "min(", "max->min"),
    (r"\bleading_zeros\b", "trailing_zeros", "lz->tz"), (r"\btrailing_zeros\b", "leading_zeros", "tz->lz"),
    (r"\bcount_ones\b", "count_zeros", "ones->zeros"), (r"\boverflowing_add\b", "overflowing_sub", "oadd->osub"),
    (r"\boverflowing_sub\b", "overflowing_add", "osub->oadd"), (r"\bchecked_add\b", "checked_sub", "cadd->csub"),
    (r"^(\s*)([a-z_][\w\.\[\]]*\s*(\+|-|\||&|\^|<<|>>)?=\s[^=].*;)\s*$", r"\1{ let _ = 0; }", "delete-assign"),
    (r"\bcarry\b", "0", "carry->0"), (r"\bborrow\b", "0", "borrow->0"), (r"\.0\b", ".1", "t0->t1"), (r"\bas u64\b", "as u32 as u64", "trunc32"),
    (r"\bLIMBS - 1\b", "0", "top->0"), (r" % 64\b", " % 32", "%64->%32"), (r" / 64\b", " / 32", "/64->/32"), (r" / 8\b", " / 4", "/8->/4"),
    (r"\bu64::MAX\b", "(u64::MAX - 1)", "MAX->MAX-1"), (r"\bSelf::MAX\b", "Self::ZERO", "MAX->ZERO"), (r"\bSelf::ZERO\b", "Self::ONE", "ZERO->ONE"),
    (r"\bis_some\(\)", "is_none()", "some->none?"), (r"\bok\(\)\?", "ok().or(None)?", "noop"),
]


def sh(cmd, cwd=None, env=None, timeout=None):
    r = subprocess.run(cmd, shell=True, cwd=cwd, env=env, capture_output=True, text=True, timeout=timeout)
    return r.returncode, r.stdout + r.stderr


def setup():
    shutil.rmtree(SCR, ignore_errors=True)
    os.makedirs(SCR)
    sh(f"git clone -q /repo {SCR}/repo")
    sh(f"rsync -a --exclude out --exclude .git --exclude harness/target {VERIF}/ {SCR}/verif/")
    # the scratch harness builds the scratch repository; reuse the dependency build products
    p = os.path.join(SCR, "verif", "harness", "Cargo.toml")
    s = open(p).read().replace('path = "/repo"', f'path = "{SCR}/repo"')
    open(p, "w").write(s)
    sh(f"cp -a {VERIF}/harness/target {SCR}/verif/harness/target")
    if os.path.exists(f"{VERIF}/harness/Cargo.lock"):
        shutil.copy(f"{VERIF}/harness/Cargo.lock", f"{SCR}/verif/harness/Cargo.lock")
    print("scratch area ready:", SCR)


def code_lines(path):
    """(index, line) of mutable code lines: no comments, attributes, assertions, test modules, string-only lines."""
    out = []
    lines = open(path).read().split("\n")
    in_test = False
    for i, l in enumerate(lines):
        s = l.strip()
        if s.startswith("#[cfg(test)]"):
            in_test = True
        if in_test:
            continue
        if not s or s.startswith("//") or s.startswith("#") or s.startswith("debug_assert") or s.startswith("assert") \
                or s.startswith("use ") or s.startswith("///") or "verif_hooks" in s or s.startswith("pub use") \
                or s.startswith("type ") or "panic!(" in s or s.startswith("write!(") or s.startswith('"'):
            continue
        out.append((i, l))
    return lines, out


def candidates(files, rng, ops=None):
    ops = ops or OPS
    cands = []
    for f in files:
        p = os.path.join(SCR, "repo", f)
        if not os.path.exists(p):
            continue
        lines, cl = code_lines(p)
        for i, l in cl:
            code = l.split("//")[0]
            for rx, rep, name in ops:
                if name == "noop":
                    continue
                for m in re.finditer(rx, code):
                    cands.append((f, i, m.start(), m.end(), rx, rep, name))
    rng.shuffle(cands)
    return cands


def run(n, seed, files, suite, family=1):
    rng = random.Random(seed)
    files = files or sorted(MAP)
    cands = candidates(files, rng, OPS if family == 1 else OPS2)
    # spread over files: round-robin by file
    byfile = {}
    for c in cands:
        byfile.setdefault(c[0], []).append(c)
    order = []
    while len(order) < n and any(byfile.values()):
        for f in sorted(byfile):
            if byfile[f] and len(order) < n:
                order.append(byfile[f].pop())
    os.makedirs(os.path.dirname(RES), exist_ok=True)
    env = dict(os.environ, VERIF_REPO=f"{SCR}/repo", CARGO_NET_OFFLINE="true")
    for k, (f, i, a, b, rx, rep, name) in enumerate(order):
        p = os.path.join(SCR, "repo", f)
        orig = open(p).read()
        lines = orig.split("\n")
        old = lines[i]
        new = old[:a] + re.sub(rx, rep, old[a:b], count=1) + old[b:]
        if new == old:
            continue
        lines[i] = new
        open(p, "w").write("\n".join(lines))
        rec = {"file": f, "line": i + 1, "op": name, "old": old.strip(), "new": new.strip(), "checks": {}, "t": time.strftime("%H:%M:%S")}
        try:
            # does it compile at all? (library only, default features)
            rc, out = sh("cargo build --offline --quiet 2>&1 | tail -n 5", cwd=f"{SCR}/repo", env=env, timeout=900)
            rc2, _ = sh("cargo build --offline --quiet", cwd=f"{SCR}/repo", env=env, timeout=900)
            if rc2 != 0:
                rec["status"] = "does_not_compile"
            else:
                killed = False
                for chk in MAP[f]:
                    t0 = time.time()
                    try:
                        rc, out = sh(f"./check {chk} --tier quick", cwd=f"{SCR}/verif", env=env, timeout=1500)
                    except subprocess.TimeoutExpired:
                        rc, out = 3, "timeout"
                    nv = out.count("VIOLATION property=")
                    rec["checks"][chk] = {"exit": rc, "violations": nv, "wall_s": round(time.time() - t0, 1)}
                    if rc == 2:
                        rec["checks"][chk]["err"] = out[-300:]
                    if rc == 1:
                        killed = True
                        break
                rec["status"] = "killed" if killed else ("tool_error" if any(c["exit"] not in (0, 1) for c in rec["checks"].values()) else "survived")
                if rec["status"] == "survived" and suite:
                    try:
                        rc, out = sh("timeout 1200 cargo test --workspace --no-fail-fast --offline 2>&1 | grep -E '^test result|FAILED|panicked' | head -n 8",
                                     cwd=f"{SCR}/repo", env=env, timeout=1300)
                        rec["suite"] = "fails" if ("FAILED" in out or "panicked" in out or "failed" in out.replace("0 failed", "")) else "passes"
                    except subprocess.TimeoutExpired:
                        rec["suite"] = "hangs"
        finally:
            open(p, "w").write(orig)
        with open(RES, "a") as fh:
            fh.write(json.dumps(rec) + "\n")
        print(k + 1, len(order), rec["status"], f, i + 1, name, rec.get("suite", ""), flush=True)


def report():
    rs = [json.loads(l) for l in open(RES)]
    for r in rs:        # a mutant in a feature-gated file that the default-feature build accepted but the harness build rejects
        if r["status"] == "tool_error" and all("cargo build failed" in c.get("err", "") for c in r["checks"].values() if c["exit"] == 2):
            r["status"] = "does_not_compile"
    st = {}
    for r in rs:
        st[r["status"]] = st.get(r["status"], 0) + 1
    print(st)
    comp = [r for r in rs if r["status"] in ("killed", "survived")]
    print("kill rate among compiling mutants:", sum(1 for r in comp if r["status"] == "killed"), "/", len(comp))
    surv = [r for r in rs if r["status"] == "survived"]
    print("survivors:", len(surv), "of which the pinned suite also passes:", sum(1 for r in surv if r.get("suite") == "passes"),
          ", suite fails:", sum(1 for r in surv if r.get("suite") == "fails"))
    for r in surv:
        print(" ", r["file"], r["line"], r["op"], "|", r["old"][:90], "=>", r["new"][:90], "| suite:", r.get("suite"))


if __name__ == "__main__":
    a = sys.argv[1:]
    if not a:
        print(__doc__)
    elif a[0] == "setup":
        setup()
    elif a[0] == "run":
        n = int(a[a.index("--n") + 1]) if "--n" in a else 50
        seed = int(a[a.index("--seed") + 1]) if "--seed" in a else 1
        files = a[a.index("--files") + 1].split(",") if "--files" in a else None
        run(n, seed, files, "--suite" in a, family=2 if "--ops2" in a else 1)
    elif a[0] == "report":
        report()
