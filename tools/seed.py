#!/usr/bin/env python3
"""Development tool for seeded changes (DESIGN.md "mutation adequacy").
  seed.py confirm <worktree> <A|B> <seed-id> [--features f1,f2]   confirm a sub-agent's mutant in its scratch worktree and
                                                                   store it as /verif/seeded/<seed-id>/
  seed.py detect <seed-id> <Cxx> [<Cyy> ...] [--tier quick]        apply the stored patch to /repo, run the checks, undo it
"""
import json
import os
import shutil
import subprocess
import sys
import time

VERIF = os.path.dirname(os.path.dirname(os.path.abspath(__file__)))
ENV = dict(os.environ, CARGO_NET_OFFLINE="true", RUST_BACKTRACE="0")


def sh(cmd, cwd, timeout=3600):
    r = subprocess.run(cmd, cwd=cwd, shell=True, capture_output=True, text=True, env=ENV, timeout=timeout)
    return r.returncode, (r.stdout + r.stderr)[-3000:]


def confirm(wt, which, sid, features):
    seed = os.path.join(wt, "_seed")
    patch = os.path.join(seed, f"{which}.diff")
    demo = os.path.join(seed, f"demo_{which.lower()}.rs")
    first = open(demo).readline()
    if not features and first.startswith("// features:"):
        features = first.split(":", 1)[1].strip()
        if features.startswith("(") or features.lower().startswith(("none", "default")):
            features = ""
    feat = f"--features {features}" if features else ""
    res = {"seed": sid, "worktree": wt, "ran": []}
    sh("git checkout -- . && rm -rf tests", wt)
    os.makedirs(os.path.join(wt, "tests"), exist_ok=True)
    shutil.copy(demo, os.path.join(wt, "tests", "demo_seed.rs"))
    rc, out = sh(f"cargo test --offline {feat} --test demo_seed", wt)
    res["demo_passes_clean"] = rc == 0
    res["ran"].append(f"clean: cargo test --offline {feat} --test demo_seed -> rc={rc}")
    rc, out = sh(f"git apply {patch}", wt)
    res["applies"] = rc == 0
    rc, out = sh(f"cargo test --offline {feat} --test demo_seed", wt)
    res["demo_fails_mutant"] = rc != 0
    res["ran"].append(f"mutant: cargo test --offline {feat} --test demo_seed -> rc={rc}")
    shutil.rmtree(os.path.join(wt, "tests"))
    rc, out = sh("cargo test --workspace --no-fail-fast --offline", wt)
    res["suite_passes_mutant"] = rc == 0
    res["ran"].append(f"mutant: cargo test --workspace --no-fail-fast --offline -> rc={rc}")
    sh("git checkout -- . && rm -rf tests", wt)
    ok = all(res[k] for k in ("demo_passes_clean", "applies", "demo_fails_mutant", "suite_passes_mutant"))
    res["confirmed"] = ok
    if ok:
        d = os.path.join(VERIF, "seeded", sid)
        os.makedirs(d, exist_ok=True)
        shutil.copy(patch, os.path.join(d, "patch.diff"))
        shutil.copy(demo, os.path.join(d, "demo.rs"))
        notes = os.path.join(seed, "NOTES.md")
        if os.path.exists(notes):
            shutil.copy(notes, os.path.join(d, "NOTES.md"))
        meta = {"id": sid, "property": sid.split("-")[0], "confirmed": res, "needs": "see NOTES.md", "detected_by": {}}
        mp = os.path.join(d, "meta.json")
        if os.path.exists(mp):
            old = json.load(open(mp))
            meta["detected_by"] = old.get("detected_by", {})
            meta["needs"] = old.get("needs", meta["needs"])
        json.dump(meta, open(mp, "w"), indent=1)
    print(json.dumps(res, indent=1))
    return 0 if ok else 1


def detect(sid, props, tier):
    d = os.path.join(VERIF, "seeded", sid)
    patch = os.path.join(d, "patch.diff")
    st = subprocess.run(["git", "-C", "/repo", "status", "--porcelain"], capture_output=True, text=True).stdout.strip()
    if st:
        print("refusing: /repo is not clean")
        return 2
    rc, out = sh(f"git -C /repo apply {patch}", "/repo")
    if rc != 0:
        # the tree may have moved since the seed was made (hook lines next to the change): try a 3-way merge, then patch(1)
        rc, out = sh(f"git -C /repo apply -3 {patch}", "/repo")
        if rc != 0:
            subprocess.run(["git", "-C", "/repo", "checkout", "--", "."])
            subprocess.run(["git", "-C", "/repo", "reset", "-q"])
            rc, out = sh(f"patch -p1 --fuzz=3 --no-backup-if-mismatch -i {patch}", "/repo")
        if rc != 0:
            # last resort: the seed rewrites a region that now carries hook lines; put the touched files back to the
            # pre-hooks version (the seed's base) and apply there (the hook counters of those files are lost for this run)
            subprocess.run(["git", "-C", "/repo", "checkout", "--", "."])
            subprocess.run("find /repo/src -name '*.rej' -delete; find /repo/src -name '*.orig' -delete", shell=True)
            base = "b56879d"
            files = [l[6:].strip() for l in open(patch) if l.startswith("+++ b/")]
            for f in files:
                old = subprocess.run(["git", "-C", "/repo", "show", f"{base}:{f}"], capture_output=True, text=True)
                if old.returncode == 0:
                    open(os.path.join("/repo", f), "w").write(old.stdout)
            rc, out = sh(f"git -C /repo apply {patch}", "/repo")
        if rc != 0:
            subprocess.run(["git", "-C", "/repo", "checkout", "--", "."])
            print("patch does not apply to /repo:", out)
            return 2
        subprocess.run(["git", "-C", "/repo", "reset", "-q"])
    results = {}
    try:
        for p in props:
            t0 = time.time()
            ev = os.path.join(VERIF, "evidence", f"{p}.json")
            saved = open(ev).read() if os.path.exists(ev) else None      # evidence/ must describe runs on the unchanged tree
            r = subprocess.run(["./check", p, "--tier", tier], cwd=VERIF, capture_output=True, text=True)
            viol = [l for l in r.stdout.split("\n") if l.startswith("VIOLATION")]
            results[p] = {"exit": r.returncode, "violation_lines": len(viol), "tier": tier, "wall_s": round(time.time() - t0, 1)}
            if r.returncode == 2:
                results[p]["stderr"] = r.stderr[-500:]
            if os.path.exists(ev):
                cov = json.load(open(ev))["coverage"]
                results[p]["violation_classes"] = {k: v["count"] for k, v in cov.get("violation_classes", {}).items()}
            if saved is not None:
                open(ev, "w").write(saved)
    finally:
        subprocess.run(["git", "-C", "/repo", "checkout", "--", "."])
    mp = os.path.join(d, "meta.json")
    meta = json.load(open(mp))
    meta.setdefault("detected_by", {}).update(results)
    json.dump(meta, open(mp, "w"), indent=1)
    print(sid, json.dumps(results))
    return 0


if __name__ == "__main__":
    a = sys.argv[1:]
    if a[0] == "confirm":
        feats = a[a.index("--features") + 1] if "--features" in a else ""
        sys.exit(confirm(a[1], a[2], a[3], feats))
    if a[0] == "detect":
        tier = a[a.index("--tier") + 1] if "--tier" in a else "quick"
        props = [x for x in a[2:] if x.startswith("C")]
        sys.exit(detect(a[1], props, tier))
