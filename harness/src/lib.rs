//! Executor for the model-based verification of recmo/uint: reads scenario
//! lines (JSON), calls the real API under `catch_unwind`, writes event lines.
//! The events are judged by the TLA+ specification (TLC), never here.
//! Each operation group is its own binary (src/bin/ux_<group>.rs including
//! src/ops/<group>.rs) so that cargo compiles the groups in parallel.
#![allow(clippy::all)]
pub mod common;

use std::io::{BufRead, BufReader, Write};
use std::sync::atomic::{AtomicU64, Ordering};
use std::sync::Arc;

/// ux_<group> <scenarios.ndjson> <events.ndjson> [--from K] [--hang-secs T] [--skip-ops a,b]
/// Executes scenario lines K.. and appends one event line per scenario (flushed
/// per event, so the number of lines in the events file is the index of the
/// scenario in flight if the process dies).  Exit 0 = all lines done, exit 3 =
/// the watchdog saw no progress (hang) on the line in flight.
pub fn main_with(run: fn(&common::Obj) -> serde_json::Value) {
    let args: Vec<String> = std::env::args().collect();
    let scen = &args[1];
    let out = &args[2];
    let mut from = 0usize;
    let mut hang_secs = 20u64;
    let mut skip_ops: Vec<String> = vec![];
    let mut i = 3;
    while i < args.len() {
        match args[i].as_str() {
            "--from" => {
                from = args[i + 1].parse().unwrap();
                i += 2;
            }
            "--hang-secs" => {
                hang_secs = args[i + 1].parse().unwrap();
                i += 2;
            }
            "--skip-ops" => {
                // operations that already hung / crashed several times in this run: their remaining scenarios are
                // answered with st = "skipped" (the supervisor reports them) instead of costing one watchdog period each
                skip_ops = args[i + 1].split(',').filter(|s| !s.is_empty()).map(|s| s.to_string()).collect();
                i += 2;
            }
            x => panic!("unknown argument {x}"),
        }
    }
    // a change that makes the code under test allocate without bound (an iterator that never ends, collected into a Vec)
    // must end as a crash of this process (allocation failure -> abort -> event st = "crash"), not as memory pressure on
    // the whole machine: cap the address space at 8 GiB (the largest legitimate scenario needs well under 1 GiB)
    unsafe {
        let lim = libc::rlimit { rlim_cur: 8 << 30, rlim_max: 8 << 30 };
        libc::setrlimit(libc::RLIMIT_AS, &lim);
    }
    std::panic::set_hook(Box::new(|_| {})); // panics in code under test are data
    let progress = Arc::new(AtomicU64::new(0));
    {
        let p = progress.clone();
        std::thread::spawn(move || {
            let mut last = p.load(Ordering::Relaxed);
            let mut idle = 0u64;
            loop {
                std::thread::sleep(std::time::Duration::from_secs(1));
                let cur = p.load(Ordering::Relaxed);
                if cur == last {
                    idle += 1;
                } else {
                    idle = 0;
                    last = cur;
                }
                if idle >= hang_secs {
                    std::process::exit(3);
                }
            }
        });
    }
    let rd = BufReader::new(std::fs::File::open(scen).expect("open scenarios"));
    let mut wr = std::fs::OpenOptions::new()
        .create(true)
        .append(true)
        .open(out)
        .expect("open events");
    for (idx, line) in rd.lines().enumerate() {
        let line = line.unwrap();
        if idx < from {
            continue;
        }
        let v: serde_json::Value = serde_json::from_str(&line).expect("scenario json");
        if let Some(op) = v.get("op").and_then(|o| o.as_str()) {
            if skip_ops.iter().any(|s| s == op) {
                let mut o = v.as_object().unwrap().clone();
                o.insert("st".to_string(), serde_json::Value::from("skipped"));
                o.insert("pan".to_string(), serde_json::Value::Array(vec![]));
                let mut s = serde_json::to_string(&serde_json::Value::Object(o)).unwrap();
                s.push('\n');
                wr.write_all(s.as_bytes()).unwrap();
                progress.fetch_add(1, Ordering::Relaxed);
                continue;
            }
        }
        let ev = match std::panic::catch_unwind(|| run(v.as_object().unwrap())) {
            Ok(ev) => ev,
            Err(e) => {
                // a panic outside Ev::rec is a harness/scenario error, not data
                let msg = e.downcast_ref::<String>().cloned().or_else(|| e.downcast_ref::<&str>().map(|s| s.to_string())).unwrap_or_default();
                eprintln!("HARNESS-ERROR line {idx}: {msg}: {line}");
                std::process::exit(4);
            }
        };
        let mut s = serde_json::to_string(&ev).unwrap();
        s.push('\n');
        wr.write_all(s.as_bytes()).unwrap();
        progress.fetch_add(1, Ordering::Relaxed);
    }
}
