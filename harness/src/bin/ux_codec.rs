#[path = "../ops/codec.rs"]
mod codec;
fn main() {
    uxh::main_with(codec::run)
}
