#[path = "../ops/math.rs"]
mod math;
fn main() {
    uxh::main_with(math::run)
}
