#[path = "../ops/kern.rs"]
mod kern;
fn main() {
    uxh::main_with(kern::run)
}
