#[path = "../ops/mach.rs"]
mod mach;
fn main() {
    uxh::main_with(mach::run)
}
