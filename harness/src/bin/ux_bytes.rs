#[path = "../ops/bytes.rs"]
mod bytes;
fn main() {
    uxh::main_with(bytes::run)
}
