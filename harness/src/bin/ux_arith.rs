#[path = "../ops/arith.rs"]
mod arith;
fn main() {
    uxh::main_with(arith::run)
}
