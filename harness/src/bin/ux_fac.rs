#[path = "../ops/fac.rs"]
mod fac;
fn main() {
    uxh::main_with(fac::run)
}
