#[path = "../ops/conv.rs"]
mod conv;
fn main() {
    uxh::main_with(conv::run)
}
