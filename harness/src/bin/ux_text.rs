#[path = "../ops/text.rs"]
mod text;
fn main() {
    uxh::main_with(text::run)
}
