#[path = "../ops/bits.rs"]
mod bits;
fn main() {
    uxh::main_with(bits::run)
}
