use ruint::Uint;
use serde_json::{Map, Value};
use std::panic::{catch_unwind, AssertUnwindSafe};

pub type Obj = Map<String, Value>;

/// Little-endian trimmed byte array of a limb slice, as a JSON array.
pub fn limbs_to_j(limbs: &[u64]) -> Value {
    let mut bytes: Vec<u8> = Vec::with_capacity(limbs.len() * 8);
    for l in limbs {
        bytes.extend_from_slice(&l.to_le_bytes());
    }
    while bytes.last() == Some(&0) {
        bytes.pop();
    }
    bytes_to_j(&bytes)
}

/// Bytes as they are (no trimming).
pub fn bytes_to_j(bytes: &[u8]) -> Value {
    Value::Array(bytes.iter().map(|b| Value::from(*b as u64)).collect())
}

pub fn j_to_bytes(v: &Value) -> Vec<u8> {
    v.as_array()
        .unwrap_or_else(|| panic!("expected byte array, got {v}"))
        .iter()
        .map(|b| b.as_u64().expect("byte") as u8)
        .collect()
}

pub fn j_to_limbs(v: &Value, n: usize) -> Vec<u64> {
    let b = j_to_bytes(v);
    let mut limbs = vec![0u64; n.max((b.len() + 7) / 8)];
    for (i, byte) in b.iter().enumerate() {
        limbs[i / 8] |= (*byte as u64) << (8 * (i % 8));
    }
    limbs
}

/// Build a Uint from a scenario value without going through ANY constructor under test: the limbs are written
/// straight into a zero value (`as_limbs_mut` hands out the array), after the harness itself has checked that the
/// scenario value is canonical.  A change to `from_limbs` & co. must show up in the recorded calls, never as a panic
/// of the harness while it is still loading its inputs (that would be reported as a tool error, not as a violation).
pub fn j_to_uint<const B: usize, const L: usize>(v: &Value) -> Uint<B, L> {
    let limbs = j_to_limbs(v, L);
    assert!(limbs.len() == L, "scenario value does not fit {B} bits");
    if L > 0 {
        let mask = if B % 64 == 0 { u64::MAX } else { (1u64 << (B % 64)) - 1 };
        assert!(limbs[L - 1] <= mask, "scenario value does not fit {B} bits");
    }
    let mut u = Uint::<B, L>::ZERO;
    // SAFETY: the limbs were just checked to be canonical for this width.
    unsafe { u.as_limbs_mut().copy_from_slice(&limbs) };
    u
}

pub fn j_to_u128(v: &Value) -> u128 {
    let b = j_to_bytes(v);
    assert!(b.len() <= 16);
    let mut x = 0u128;
    for (i, byte) in b.iter().enumerate() {
        x |= (*byte as u128) << (8 * i);
    }
    x
}
pub fn j_to_u64(v: &Value) -> u64 {
    let x = j_to_u128(v);
    assert!(x <= u64::MAX as u128);
    x as u64
}
pub fn j_to_usize(v: &Value) -> usize {
    j_to_u64(v) as usize
}

/// Conversion of call results into the event's JSON form.
pub trait ToJ {
    fn to_j(&self) -> Value;
}
impl<const B: usize, const L: usize> ToJ for Uint<B, L> {
    fn to_j(&self) -> Value {
        limbs_to_j(self.as_limbs())
    }
}
impl<const B: usize, const L: usize> ToJ for ruint::Bits<B, L> {
    fn to_j(&self) -> Value {
        limbs_to_j(self.as_uint().as_limbs())
    }
}
impl ToJ for bool {
    fn to_j(&self) -> Value {
        Value::Bool(*self)
    }
}
impl ToJ for Value {
    fn to_j(&self) -> Value {
        self.clone()
    }
}
impl ToJ for () {
    fn to_j(&self) -> Value {
        Value::Bool(true)
    }
}
impl ToJ for String {
    fn to_j(&self) -> Value {
        Value::String(self.clone())
    }
}
impl ToJ for &str {
    fn to_j(&self) -> Value {
        Value::String(self.to_string())
    }
}
/// A small count (< 2^31), sent as a plain JSON number.
pub struct N(pub usize);
impl ToJ for N {
    fn to_j(&self) -> Value {
        assert!(self.0 < (1usize << 31), "count too large for a plain number");
        Value::from(self.0 as u64)
    }
}
/// Any unsigned machine integer, sent as a BigNat (trimmed LE bytes).
pub struct Bn(pub u128);
impl ToJ for Bn {
    fn to_j(&self) -> Value {
        let mut b = self.0.to_le_bytes().to_vec();
        while b.last() == Some(&0) {
            b.pop();
        }
        bytes_to_j(&b)
    }
}
/// Raw bytes (not trimmed).
pub struct Raw(pub Vec<u8>);
impl ToJ for Raw {
    fn to_j(&self) -> Value {
        bytes_to_j(&self.0)
    }
}
impl<T: ToJ> ToJ for Option<T> {
    fn to_j(&self) -> Value {
        match self {
            None => Value::Array(vec![]),
            Some(v) => Value::Array(vec![v.to_j()]),
        }
    }
}
impl<T: ToJ> ToJ for Vec<T> {
    fn to_j(&self) -> Value {
        Value::Array(self.iter().map(|x| x.to_j()).collect())
    }
}
impl<A: ToJ, C: ToJ> ToJ for (A, C) {
    fn to_j(&self) -> Value {
        Value::Array(vec![self.0.to_j(), self.1.to_j()])
    }
}
impl<A: ToJ, C: ToJ, D: ToJ> ToJ for (A, C, D) {
    fn to_j(&self) -> Value {
        Value::Array(vec![self.0.to_j(), self.1.to_j(), self.2.to_j()])
    }
}
impl<A: ToJ, C: ToJ, D: ToJ, E: ToJ> ToJ for (A, C, D, E) {
    fn to_j(&self) -> Value {
        Value::Array(vec![self.0.to_j(), self.1.to_j(), self.2.to_j(), self.3.to_j()])
    }
}

/// An event under construction: the scenario fields plus observed results.
pub struct Ev {
    pub o: Obj,
    pub pan: Vec<Value>,
    cov0: Vec<u64>,
}

/// Coverage counters compiled into ruint under `--cfg recmo_uint_verif` (names of rare branches).
#[cfg(recmo_uint_verif)]
fn cov_snapshot() -> Vec<u64> {
    ruint::verif_hooks::snapshot().to_vec()
}
#[cfg(not(recmo_uint_verif))]
fn cov_snapshot() -> Vec<u64> {
    vec![]
}
#[cfg(recmo_uint_verif)]
fn cov_names() -> &'static [&'static str] {
    ruint::verif_hooks::NAMES
}
#[cfg(not(recmo_uint_verif))]
fn cov_names() -> &'static [&'static str] {
    &[]
}

impl Ev {
    pub fn new(scn: &Obj) -> Self {
        Ev { o: scn.clone(), pan: vec![], cov0: cov_snapshot() }
    }
    /// Run one call of the code under test; a panic is data.
    pub fn rec<T: ToJ>(&mut self, name: &str, f: impl FnOnce() -> T) {
        match catch_unwind(AssertUnwindSafe(|| f().to_j())) {
            Ok(v) => {
                self.o.insert(name.to_string(), v);
            }
            Err(_) => self.pan.push(Value::String(name.to_string())),
        }
    }
    pub fn put(&mut self, name: &str, v: Value) {
        self.o.insert(name.to_string(), v);
    }
    pub fn finish(mut self) -> Value {
        let now = cov_snapshot();
        let mut cov = Obj::new();
        for (i, name) in cov_names().iter().enumerate() {
            let d = now[i] - self.cov0[i];
            if d > 0 {
                cov.insert(name.to_string(), Value::from(d));
            }
        }
        if !cov.is_empty() {
            self.o.insert("cov".into(), Value::Object(cov));
        }
        self.o.insert("pan".into(), Value::Array(self.pan));
        self.o.insert("st".into(), Value::String("ok".into()));
        Value::Object(self.o)
    }
}

/// `w!(bits, f, args...)` calls `f::<BITS, LIMBS>(args...)` for the run-time width
/// `bits`, which must be one of the compiled widths.
#[macro_export]
macro_rules! widths {
    ($bits:expr, $f:ident, $args:tt, [$($b:literal),* $(,)?]) => {
        match $bits {
            $( $b => $f::<$b, { ruint::nlimbs($b) }> $args, )*
            other => panic!("width {other} is not compiled into the executor"),
        }
    };
}

/// Like `w!` but also passes BYTES = ceil(BITS/8) as a third const argument.
#[macro_export]
macro_rules! widths_b {
    ($bits:expr, $f:ident, $args:tt, [$($b:literal),* $(,)?]) => {
        match $bits {
            $( $b => $f::<$b, { ruint::nlimbs($b) }, { ($b + 7) / 8 }> $args, )*
            other => panic!("width {other} is not compiled into the executor"),
        }
    };
}
#[macro_export]
macro_rules! wb {
    ($bits:expr, $f:ident, $($a:expr),*) => {
        $crate::widths_b!($bits, $f, ($($a),*), [
            0, 1, 2, 3, 4, 5, 6, 7, 8, 9, 13, 16, 31, 32, 33, 60, 63, 64,
            65, 72, 100, 127, 128, 129, 160, 192, 250, 255, 256, 257, 320,
            384, 440, 448, 512, 521, 535, 536, 576, 1024, 1100, 4096
        ])
    };
}

/// The compiled width list (DESIGN.md §4.3).
#[macro_export]
macro_rules! w {
    ($bits:expr, $f:ident, $($a:expr),*) => {
        $crate::widths!($bits, $f, ($($a),*), [
            0, 1, 2, 3, 4, 5, 6, 7, 8, 9, 13, 16, 31, 32, 33, 60, 63, 64,
            65, 72, 100, 127, 128, 129, 160, 192, 250, 255, 256, 257, 320,
            384, 440, 448, 512, 521, 535, 536, 576, 1024, 1100, 4096
        ])
    };
}
pub const WIDTHS: &[usize] = &[
    0, 1, 2, 3, 4, 5, 6, 7, 8, 9, 13, 16, 31, 32, 33, 60, 63, 64, 65, 72, 100, 127, 128, 129, 160,
    192, 250, 255, 256, 257, 320, 384, 440, 448, 512, 521, 535, 536, 576, 1024, 1100, 4096,
];
