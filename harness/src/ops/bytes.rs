//! C08 byte encodings.
use ruint::Uint;
use serde_json::Value;
use uxh::common::*;
use uxh::wb;

pub fn run(scn: &Obj) -> Value {
    let bits = scn["bits"].as_u64().unwrap() as usize;
    wb!(bits, run_w, scn)
}

fn run_w<const B: usize, const L: usize, const NB: usize>(scn: &Obj) -> Value {
    let mut ev = Ev::new(scn);
    let op = scn["op"].as_str().unwrap();
    match op {
        "enc" => {
            let a: Uint<B, L> = j_to_uint(&scn["a"]);
            // the public size helpers and associated constants the byte forms are defined by
            ev.rec("sizes", || vec![N(ruint::nbytes(B)), N(ruint::nlimbs(B)), N(Uint::<B, L>::BYTES), N(Uint::<B, L>::LIMBS), N(Uint::<B, L>::BITS)]);
            ev.rec("le_slice", || Raw(a.as_le_slice().to_vec()));
            ev.rec("le_bytes", || Raw(a.as_le_bytes().to_vec()));
            ev.rec("le_trim", || Raw(a.as_le_bytes_trimmed().to_vec()));
            ev.rec("to_le", || Raw(a.to_le_bytes::<NB>().to_vec()));
            ev.rec("to_be", || Raw(a.to_be_bytes::<NB>().to_vec()));
            ev.rec("le_vec", || Raw(a.to_le_bytes_vec()));
            ev.rec("be_vec", || Raw(a.to_be_bytes_vec()));
            ev.rec("le_tvec", || Raw(a.to_le_bytes_trimmed_vec()));
            ev.rec("be_tvec", || Raw(a.to_be_bytes_trimmed_vec()));
            // the array forms with a size parameter that is NOT Self::BYTES are documented to panic (sizes 3, 7, 31 and 600 are
            // the byte size of no compiled width)
            ev.rec("ws_to_le3", || Raw(a.to_le_bytes::<3>().to_vec()));
            ev.rec("ws_to_be3", || Raw(a.to_be_bytes::<3>().to_vec()));
            ev.rec("ws_to_le7", || Raw(a.to_le_bytes::<7>().to_vec()));
            ev.rec("ws_to_be7", || Raw(a.to_be_bytes::<7>().to_vec()));
            ev.rec("ws_to_le31", || Raw(a.to_le_bytes::<31>().to_vec()));
            ev.rec("ws_to_be31", || Raw(a.to_be_bytes::<31>().to_vec()));
            ev.rec("ws_to_be600", || Raw(a.to_be_bytes::<600>().to_vec()));
            ev.rec("ws_from_le3", || Uint::<B, L>::from_le_bytes::<3>([0u8; 3]));
            ev.rec("ws_from_be3", || Uint::<B, L>::from_be_bytes::<3>([0u8; 3]));
            ev.rec("ws_from_le31", || Uint::<B, L>::from_le_bytes::<31>([0u8; 31]));
            ev.rec("ws_from_be7", || Uint::<B, L>::from_be_bytes::<7>([0u8; 7]));
            // decoding the encodings returns the original value
            ev.rec("rt_le", || Uint::<B, L>::from_le_bytes::<NB>(a.to_le_bytes::<NB>()));
            ev.rec("rt_be", || Uint::<B, L>::from_be_bytes::<NB>(a.to_be_bytes::<NB>()));
            ev.rec("rt_les", || Uint::<B, L>::from_le_slice(&a.to_le_bytes_vec()));
            ev.rec("rt_bes", || Uint::<B, L>::from_be_slice(&a.to_be_bytes_vec()));
            ev.rec("rt_let", || Uint::<B, L>::try_from_le_slice(&a.to_le_bytes_trimmed_vec()));
            ev.rec("rt_bet", || Uint::<B, L>::try_from_be_slice(&a.to_be_bytes_trimmed_vec()));
        }
        "copy" => {
            let a: Uint<B, L> = j_to_uint(&scn["a"]);
            let pat = j_to_bytes(&scn["pat"]);
            let pattern = |_n: usize| pat.clone();
            let n = pat.len();
            ev.rec("cle", || { let mut buf = pattern(n); let r = a.checked_copy_le_bytes_to(&mut buf); (r.map(N), Raw(buf)) });
            ev.rec("cbe", || { let mut buf = pattern(n); let r = a.checked_copy_be_bytes_to(&mut buf); (r.map(N), Raw(buf)) });
            ev.rec("ple", || { let mut buf = pattern(n); let r = a.copy_le_bytes_to(&mut buf); (N(r), Raw(buf)) });
            ev.rec("pbe", || { let mut buf = pattern(n); let r = a.copy_be_bytes_to(&mut buf); (N(r), Raw(buf)) });
        }
        "dec" => {
            let bytes = j_to_bytes(&scn["x"]);
            ev.rec("try_be", || Uint::<B, L>::try_from_be_slice(&bytes));
            ev.rec("try_le", || Uint::<B, L>::try_from_le_slice(&bytes));
            ev.rec("from_be", || Uint::<B, L>::from_be_slice(&bytes));
            ev.rec("from_le", || Uint::<B, L>::from_le_slice(&bytes));
            if bytes.len() == NB {
                let mut arr = [0u8; NB];
                arr.copy_from_slice(&bytes);
                ev.rec("arr_be", || Uint::<B, L>::from_be_bytes::<NB>(arr));
                ev.rec("arr_le", || Uint::<B, L>::from_le_bytes::<NB>(arr));
            }
        }
        other => panic!("bytes: unknown op {other:?}"),
    }
    ev.finish()
}
