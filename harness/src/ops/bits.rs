//! C05 shifts/rotations, C06 bitwise logic, bit access, bit counting, C04 comparisons.
use uxh::common::*;
use uxh::w;
use ruint::Uint;
use serde_json::Value;

pub fn run(scn: &Obj) -> Value {
    let bits = scn["bits"].as_u64().unwrap() as usize;
    w!(bits, run_w, scn)
}

macro_rules! typed_shifts {
    ($ev:expr, $a:expr, $s:expr, $( ($t:ty, $n:literal) ),*) => {
        $(
            if let Ok(s) = <$t>::try_from($s) {
                $ev.rec(concat!("shl_", $n, "_v"), || $a << s);
                $ev.rec(concat!("shl_", $n, "_r"), || $a << &s);
                $ev.rec(concat!("shl_", $n, "_av"), || { let mut x = $a; x <<= s; x });
                $ev.rec(concat!("shl_", $n, "_ar"), || { let mut x = $a; x <<= &s; x });
                $ev.rec(concat!("shr_", $n, "_v"), || $a >> s);
                $ev.rec(concat!("shr_", $n, "_r"), || $a >> &s);
                $ev.rec(concat!("shr_", $n, "_av"), || { let mut x = $a; x >>= s; x });
                $ev.rec(concat!("shr_", $n, "_ar"), || { let mut x = $a; x >>= &s; x });
            }
        )*
    };
}

fn hash_of<T: std::hash::Hash>(x: &T) -> u64 {
    use std::hash::Hasher;
    #[allow(deprecated)]
    let mut h = std::hash::SipHasher::new_with_keys(0x0123_4567_89ab_cdef, 0xfedc_ba98_7654_3210);
    x.hash(&mut h);
    h.finish()
}

fn run_w<const B: usize, const L: usize>(scn: &Obj) -> Value {
    let mut ev = Ev::new(scn);
    let op = scn["op"].as_str().unwrap();
    let a: Uint<B, L> = j_to_uint(&scn["a"]);
    match op {
        "shift" => {
            let s = j_to_usize(&scn["s"]);
            ev.rec("oshl", || a.overflowing_shl(s));
            ev.rec("cshl", || a.checked_shl(s));
            ev.rec("sshl", || a.saturating_shl(s));
            ev.rec("wshl", || a.wrapping_shl(s));
            ev.rec("oshr", || a.overflowing_shr(s));
            ev.rec("cshr", || a.checked_shr(s));
            ev.rec("wshr", || a.wrapping_shr(s));
            ev.rec("ashr", || a.arithmetic_shr(s));
            ev.rec("rotl", || a.rotate_left(s));
            ev.rec("rotr", || a.rotate_right(s));
            if scn.get("ty").is_some() {
                typed_shifts!(ev, a, s, (usize, "usize"), (u8, "u8"), (u16, "u16"), (u32, "u32"), (u64, "u64"),
                    (isize, "isize"), (i8, "i8"), (i16, "i16"), (i32, "i32"), (i64, "i64"));
            }
        }
        "shiftu" => {
            // shift amount held in a Uint of the same width
            let s: Uint<B, L> = j_to_uint(&scn["s"]);
            ev.rec("shl_v", || a << s);
            ev.rec("shl_r", || a << &s);
            ev.rec("shl_av", || { let mut x = a; x <<= s; x });
            ev.rec("shl_ar", || { let mut x = a; x <<= &s; x });
            ev.rec("shr_v", || a >> s);
            ev.rec("shr_r", || a >> &s);
            ev.rec("shr_av", || { let mut x = a; x >>= s; x });
            ev.rec("shr_ar", || { let mut x = a; x >>= &s; x });
        }
        "logic" => {
            let b: Uint<B, L> = j_to_uint(&scn["b"]);
            ev.rec("not_m", || Uint::not(a));
            ev.rec("not_v", || !a);
            ev.rec("not_r", || !&a);
            ev.rec("and_vv", || a & b);
            ev.rec("and_vr", || a & &b);
            ev.rec("and_rv", || &a & b);
            ev.rec("and_rr", || &a & &b);
            ev.rec("and_av", || { let mut x = a; x &= b; x });
            ev.rec("and_ar", || { let mut x = a; x &= &b; x });
            ev.rec("or_vv", || a | b);
            ev.rec("or_vr", || a | &b);
            ev.rec("or_rv", || &a | b);
            ev.rec("or_rr", || &a | &b);
            ev.rec("or_av", || { let mut x = a; x |= b; x });
            ev.rec("or_ar", || { let mut x = a; x |= &b; x });
            ev.rec("xor_vv", || a ^ b);
            ev.rec("xor_vr", || a ^ &b);
            ev.rec("xor_rv", || &a ^ b);
            ev.rec("xor_rr", || &a ^ &b);
            ev.rec("xor_av", || { let mut x = a; x ^= b; x });
            ev.rec("xor_ar", || { let mut x = a; x ^= &b; x });
        }
        "bitq" => {
            ev.rec("lz", || N(a.leading_zeros()));
            ev.rec("lo", || N(a.leading_ones()));
            ev.rec("tz", || N(a.trailing_zeros()));
            ev.rec("to", || N(a.trailing_ones()));
            ev.rec("co", || N(a.count_ones()));
            ev.rec("cz", || N(a.count_zeros()));
            ev.rec("bitlen", || N(a.bit_len()));
            ev.rec("bytelen", || N(a.byte_len()));
            ev.rec("rev", || a.reverse_bits());
            ev.rec("msb", || { let (m, e) = a.most_significant_bits(); (Bn(m as u128), N(e)) });
            ev.rec("ispow2", || a.is_power_of_two());
            ev.rec("npow2", || a.next_power_of_two());
            ev.rec("cnpow2", || a.checked_next_power_of_two());
        }
        "bitidx" => {
            let i = j_to_usize(&scn["i"]);
            ev.rec("bit", || a.bit(i));
            ev.rec("set1", || { let mut x = a; x.set_bit(i, true); x });
            ev.rec("set0", || { let mut x = a; x.set_bit(i, false); x });
            ev.rec("byte", || N(a.byte(i) as usize));
            ev.rec("cbyte", || a.checked_byte(i).map(|b| N(b as usize)));
        }
        "cmp" => {
            // C04: Eq / Hash / Ord follow the number
            let b: Uint<B, L> = j_to_uint(&scn["b"]);
            ev.rec("eq", || a == b);
            ev.rec("ne", || a != b);
            ev.rec("lt", || a < b);
            ev.rec("le", || a <= b);
            ev.rec("gt", || a > b);
            ev.rec("ge", || a >= b);
            ev.rec("cmp", || N((a.cmp(&b) as i8 + 1) as usize));
            ev.rec("pcmp", || a.partial_cmp(&b).map(|o| N((o as i8 + 1) as usize)));
            ev.rec("min", || a.min(b));
            ev.rec("max", || a.max(b));
            ev.rec("zero", || a.is_zero());
            ev.rec("hasheq", || hash_of(&a) == hash_of(&b));
        }
        other => panic!("bits: unknown op {other:?}"),
    }
    ev.finish()
}
