//! C14 division kernels, C15 multiply/add/shift/compare kernels, C11 Montgomery kernels,
//! C12 Lehmer matrices.  Limb slices travel as 8*len raw little-endian bytes.
use ruint::algorithms as alg;
use ruint::algorithms::div as kd;
use ruint::algorithms::LehmerMatrix;
use ruint::Uint;
use serde_json::Value;
use uxh::common::*;
use uxh::w;

fn sl(v: &Value) -> Vec<u64> {
    let b = j_to_bytes(v);
    assert!(b.len() % 8 == 0, "limb slice must be 8*len bytes");
    b.chunks(8).map(|c| u64::from_le_bytes(c.try_into().unwrap())).collect()
}
struct Sl(Vec<u64>);
impl ToJ for Sl {
    fn to_j(&self) -> Value {
        Raw(self.0.iter().flat_map(|l| l.to_le_bytes()).collect()).to_j()
    }
}
fn mat_j(m: LehmerMatrix) -> Value {
    Value::Array(vec![Bn(m.0 as u128).to_j(), Bn(m.1 as u128).to_j(), Bn(m.2 as u128).to_j(), Bn(m.3 as u128).to_j(), m.4.to_j()])
}
fn j_mat(v: &Value) -> LehmerMatrix {
    let a = v.as_array().unwrap();
    LehmerMatrix(j_to_u64(&a[0]), j_to_u64(&a[1]), j_to_u64(&a[2]), j_to_u64(&a[3]), a[4].as_bool().unwrap())
}

fn redc_n<const K: usize>(ev: &mut Ev, a: &[u64], b: &[u64], m: &[u64], inv: u64) {
    let a: [u64; K] = a.try_into().unwrap();
    let b: [u64; K] = b.try_into().unwrap();
    let m: [u64; K] = m.try_into().unwrap();
    ev.rec("mul", || Sl(alg::mul_redc::<K>(a, b, m, inv).to_vec()));
    ev.rec("sq", || Sl(alg::square_redc::<K>(a, m, inv).to_vec()));
}

fn lehmer_w<const B: usize, const L: usize>(scn: &Obj) -> Value {
    let mut ev = Ev::new(scn);
    let a: Uint<B, L> = j_to_uint(&scn["a"]);
    let b: Uint<B, L> = j_to_uint(&scn["b"]);
    ev.rec("m", || mat_j(LehmerMatrix::from(a, b)));
    ev.rec("applied", || {
        let m = LehmerMatrix::from(a, b);
        let (mut c, mut d) = (a, b);
        m.apply(&mut c, &mut d);
        (c, d)
    });
    ev.finish()
}

pub fn run(scn: &Obj) -> Value {
    let op = scn["op"].as_str().unwrap();
    if op == "lehmer" {
        let bits = scn["bits"].as_u64().unwrap() as usize;
        return w!(bits, lehmer_w, scn);
    }
    let mut ev = Ev::new(scn);
    match op {
        // ---------------- C14 ----------------
        "kdiv" => {
            let (n, d) = (sl(&scn["n"]), sl(&scn["d"]));
            ev.rec("out", || { let (mut n, mut d) = (n.clone(), d.clone()); kd::div(&mut n, &mut d); (Sl(n), Sl(d)) });
        }
        "kdiv_nxm" => {
            let (n, d) = (sl(&scn["n"]), sl(&scn["d"]));
            ev.rec("out", || { let (mut n, mut d) = (n.clone(), d.clone()); kd::div_nxm(&mut n, &mut d); (Sl(n), Sl(d)) });
        }
        "kdiv_nxm_norm" => {
            let (n, d) = (sl(&scn["n"]), sl(&scn["d"]));
            ev.rec("out", || { let mut n = n.clone(); kd::div_nxm_normalized(&mut n, &d); Sl(n) });
        }
        "kdiv_nx1" => {
            let n = sl(&scn["n"]);
            let d = j_to_u64(&scn["d"]);
            ev.rec("out", || { let mut n = n.clone(); let r = kd::div_nx1(&mut n, d); (Sl(n), Bn(r as u128)) });
            if d >> 63 == 1 {
                ev.rec("norm", || { let mut n = n.clone(); let r = kd::div_nx1_normalized(&mut n, d); (Sl(n), Bn(r as u128)) });
            }
        }
        "kdiv_nx2" => {
            let n = sl(&scn["n"]);
            let d = j_to_u128(&scn["d"]);
            ev.rec("out", || { let mut n = n.clone(); let r = kd::div_nx2(&mut n, d); (Sl(n), Bn(r)) });
            if d >> 127 == 1 {
                ev.rec("norm", || { let mut n = n.clone(); let r = kd::div_nx2_normalized(&mut n, d); (Sl(n), Bn(r)) });
            }
        }
        "kdiv_2x1" => {
            let u = j_to_u128(&scn["u"]);
            let d = j_to_u64(&scn["d"]);
            ev.rec("mg10", || { let (q, r) = kd::div_2x1(u, d, kd::reciprocal(d)); (Bn(q as u128), Bn(r as u128)) });
            ev.rec("ref", || { let (q, r) = kd::div_2x1_ref(u, d); (Bn(q as u128), Bn(r as u128)) });
        }
        "kdiv_3x2" => {
            let u21 = j_to_u128(&scn["u21"]);
            let u0 = j_to_u64(&scn["u0"]);
            let d = j_to_u128(&scn["d"]);
            ev.rec("mg10", || { let (q, r) = kd::div_3x2(u21, u0, d, kd::reciprocal_2(d)); (Bn(q as u128), Bn(r)) });
        }
        "krecip" => {
            let d = j_to_u64(&scn["d"]);
            ev.rec("mg10", || Bn(kd::reciprocal(d) as u128));
            ev.rec("ref", || Bn(kd::reciprocal_ref(d) as u128));
        }
        "krecip2" => {
            let d = j_to_u128(&scn["d"]);
            ev.rec("mg10", || Bn(kd::reciprocal_2(d) as u128));
        }
        // ---------------- C15 ----------------
        "kaddmul" => {
            let (acc, a, b) = (sl(&scn["acc"]), sl(&scn["a"]), sl(&scn["b"]));
            ev.rec("out", || { let mut x = acc.clone(); let f = alg::addmul(&mut x, &a, &b); (Sl(x), f) });
            ev.rec("n", || { let mut x = acc.clone(); alg::addmul_n(&mut x, &a, &b); Sl(x) });
        }
        "knx1" => {
            // acc and a have equal lengths; b is a word
            let (acc, a) = (sl(&scn["acc"]), sl(&scn["a"]));
            let b = j_to_u64(&scn["b"]);
            ev.rec("mul", || { let mut x = acc.clone(); let c = alg::mul_nx1(&mut x, b); (Sl(x), Bn(c as u128)) });
            ev.rec("addmul", || { let mut x = acc.clone(); let c = alg::addmul_nx1(&mut x, &a, b); (Sl(x), Bn(c as u128)) });
            ev.rec("submul", || { let mut x = acc.clone(); let c = alg::submul_nx1(&mut x, &a, b); (Sl(x), Bn(c as u128)) });
            ev.rec("add", || { let mut x = acc.clone(); let c = alg::add_nx1(&mut x, b); (Sl(x), Bn(c as u128)) });
            // the carry / borrow word going in is a full word (the kernels return exact words for any of them)
            ev.rec("adc", || { let mut x = acc.clone(); let c = alg::adc_n(&mut x, &a, b); (Sl(x), Bn(c as u128)) });
            ev.rec("sbb", || { let mut x = acc.clone(); let c = alg::sbb_n(&mut x, &a, b); (Sl(x), Bn(c as u128)) });
            ev.rec("cmp", || N((alg::cmp(&acc, &a) as i8 + 1) as usize));
        }
        "kword" => {
            let (x, y, c) = (j_to_u64(&scn["x"]), j_to_u64(&scn["y"]), j_to_u64(&scn["c"]));
            ev.rec("adc", || { let (r, c2) = alg::adc(x, y, c); (Bn(r as u128), Bn(c2 as u128)) });
            ev.rec("sbb", || { let (r, c2) = alg::sbb(x, y, c); (Bn(r as u128), Bn(c2 as u128)) });
            ev.rec("cadd", || { let (r, c2) = alg::carrying_add(x, y, c & 1 == 1); (Bn(r as u128), c2) });
            ev.rec("bsub", || { let (r, c2) = alg::borrowing_sub(x, y, c & 1 == 1); (Bn(r as u128), c2) });
        }
        "kshift" => {
            let x = sl(&scn["x"]);
            let s = scn["s"].as_u64().unwrap() as usize;
            ev.rec("left", || { let mut y = x.clone(); let o = alg::shift_left_small(&mut y, s); (Sl(y), Bn(o as u128)) });
            ev.rec("right", || { let mut y = x.clone(); let o = alg::shift_right_small(&mut y, s); (Sl(y), Bn(o as u128)) });
        }
        // ---------------- C11 ----------------
        "kredc" => {
            let (a, b, m) = (sl(&scn["a"]), sl(&scn["b"]), sl(&scn["m"]));
            let inv = j_to_u64(&scn["inv"]);
            macro_rules! by_n { ($($n:literal),*) => { match m.len() { $( $n => redc_n::<$n>(&mut ev, &a, &b, &m, inv), )* n => panic!("kredc N={n}") } } }
            by_n!(1, 2, 3, 4, 5, 6, 7, 8, 9, 10, 11, 12, 13, 14, 15, 16);
        }
        // ---------------- C12 ----------------
        "klehmer64" => {
            let (r0, r1) = (j_to_u64(&scn["a"]), j_to_u64(&scn["b"]));
            ev.rec("m", || mat_j(LehmerMatrix::from_u64(r0, r1)));
        }
        "klehmer_prefix" => {
            let (a0, a1) = (j_to_u64(&scn["a"]), j_to_u64(&scn["b"]));
            ev.rec("m", || mat_j(LehmerMatrix::from_u64_prefix(a0, a1)));
        }
        "klehmer_prefix128" => {
            let (r0, r1) = (j_to_u128(&scn["a"]), j_to_u128(&scn["b"]));
            ev.rec("m", || mat_j(LehmerMatrix::from_u128_prefix(r0, r1)));
        }
        "kapply128" => {
            let m = j_mat(&scn["m"]);
            let (a, b) = (j_to_u128(&scn["a"]), j_to_u128(&scn["b"]));
            ev.rec("out", || { let (c, d) = m.apply_u128(a, b); (Bn(c), Bn(d)) });
        }
        "kcompose" => {
            let (m1, m2) = (j_mat(&scn["m1"]), j_mat(&scn["m2"]));
            ev.rec("out", || mat_j(m1.compose(m2)));
        }
        other => panic!("kern: unknown op {other:?}"),
    }
    ev.finish()
}
