//! C09 radix conversion, parsing, formatting.  Text travels as arrays of Unicode code points.
use ruint::{BaseConvertError, ParseError, Uint};
use serde_json::Value;
use std::fmt;
use std::str::FromStr;
use uxh::common::*;
use uxh::w;

pub fn run(scn: &Obj) -> Value {
    let bits = scn["bits"].as_u64().unwrap() as usize;
    w!(bits, run_w, scn)
}

fn cps(s: &str) -> Value {
    Value::Array(s.chars().map(|c| Value::from(c as u32)).collect())
}
fn j_str(v: &Value) -> String {
    v.as_array().unwrap().iter().map(|c| char::from_u32(c.as_u64().unwrap() as u32).unwrap()).collect()
}
fn bce(e: BaseConvertError) -> Value {
    match e {
        BaseConvertError::Overflow => Value::Array(vec!["overflow".to_j()]),
        BaseConvertError::InvalidBase(b) => Value::Array(vec!["badbase".to_j(), Bn(b as u128).to_j()]),
        BaseConvertError::InvalidDigit(d, b) => Value::Array(vec!["baddigit".to_j(), Bn(d as u128).to_j(), Bn(b as u128).to_j()]),
    }
}
fn bres<const B: usize, const L: usize>(r: Result<Uint<B, L>, BaseConvertError>) -> Value {
    match r {
        Ok(v) => Value::Array(vec!["ok".to_j(), v.to_j()]),
        Err(e) => bce(e),
    }
}
fn pres<const B: usize, const L: usize>(r: Result<Uint<B, L>, ParseError>) -> Value {
    match r {
        Ok(v) => Value::Array(vec!["ok".to_j(), v.to_j()]),
        Err(ParseError::InvalidDigit(c)) => Value::Array(vec!["char".to_j(), Value::from(c as u32)]),
        Err(ParseError::InvalidRadix(r)) => Value::Array(vec!["radix".to_j(), Bn(r as u128).to_j()]),
        Err(ParseError::BaseConvertError(e)) => bce(e),
    }
}

include!("fmt_grid.rs");

fn fmt_any<T: fmt::Display + fmt::Debug + fmt::Binary + fmt::Octal + fmt::LowerHex + fmt::UpperHex>(
    v: &T, tr: &str, flags: &str, align: &str, w: Option<usize>,
) -> String {
    match tr {
        "d" => g_display(v, flags, align, w),
        "?" => g_debug(v, flags, align, w),
        "b" => g_binary(v, flags, align, w),
        "o" => g_octal(v, flags, align, w),
        "x" => g_lhex(v, flags, align, w),
        "X" => g_uhex(v, flags, align, w),
        other => panic!("trait {other:?}"),
    }
}

fn run_w<const B: usize, const L: usize>(scn: &Obj) -> Value {
    let mut ev = Ev::new(scn);
    let op = scn["op"].as_str().unwrap();
    match op {
        "tobase" => {
            let a: Uint<B, L> = j_to_uint(&scn["a"]);
            let base = j_to_u64(&scn["base"]);
            ev.rec("le", || a.to_base_le(base).map(|d| Bn(d as u128)).collect::<Vec<_>>());
            ev.rec("be", || a.to_base_be(base).map(|d| Bn(d as u128)).collect::<Vec<_>>());
            // the same digits through the Iterator adaptors (skip / step_by / nth / count / last go through `nth`, `size_hint`
            // and friends, which an implementation may override): ten digit sequences per direction
            fn adaptors<I: Iterator<Item = u64>>(mk: &dyn Fn() -> I) -> Vec<Vec<Bn>> {
                let bn = |v: Vec<u64>| v.into_iter().map(|d| Bn(d as u128)).collect::<Vec<_>>();
                let len = mk().count();
                let mut out = vec![];
                out.push(bn(mk().skip(1).collect()));
                out.push(bn(mk().skip(len).collect()));
                out.push(bn(mk().skip(len + 1).collect()));
                out.push(bn(mk().step_by(2).collect()));
                let mut it = mk();
                out.push(bn(it.nth(1).into_iter().collect()));
                out.push(bn(it.collect()));
                let mut it = mk();
                out.push(bn(it.nth(len + 2).into_iter().collect()));        // past the end: None, and everything is consumed
                out.push(bn(it.collect()));
                out.push(bn(mk().last().into_iter().collect()));
                let (lo, hi) = mk().size_hint();
                out.push(vec![Bn(len as u128), Bn((lo <= len) as u128), Bn(hi.map_or(true, |h| h >= len) as u128)]);
                out
            }
            if base >= 2 {
                ev.rec("le_it", || adaptors(&|| a.to_base_le(base)));
                ev.rec("be_it", || adaptors(&|| a.to_base_be(base)));
            }
        }
        "frombase" => {
            let base = j_to_u64(&scn["base"]);
            let ds: Vec<u64> = scn["ds"].as_array().unwrap().iter().map(j_to_u64).collect();
            ev.rec("le", || bres(Uint::<B, L>::from_base_le(base, ds.iter().copied())));
            ev.rec("be", || bres(Uint::<B, L>::from_base_be(base, ds.iter().copied())));
        }
        "fmt" => {
            let a: Uint<B, L> = j_to_uint(&scn["a"]);
            let tr = scn["tr"].as_str().unwrap();
            let flags = scn["fl"].as_str().unwrap();
            let align = scn["al"].as_str().unwrap();
            let w = scn.get("w").and_then(|v| v.as_u64()).map(|x| x as usize);
            ev.rec("text", || cps(&fmt_any(&a, tr, flags, align, w)));
            // the reference: the primitive integer's own formatting of the same number
            if a.bit_len() <= 128 {
                let p: u128 = j_to_u128(&scn["a"]);
                ev.rec("prim", || cps(&fmt_any(&p, tr, flags, align, w)));
            }
        }
        "parse" => {
            let s = j_str(&scn["s"]);
            let radix = j_to_u64(&scn["radix"]);
            ev.rec("fsr", || pres(Uint::<B, L>::from_str_radix(&s, radix)));
            ev.rec("fs", || pres(Uint::<B, L>::from_str(&s)));
        }
        other => panic!("text: unknown op {other:?}"),
    }
    ev.finish()
}
