//! C10 modular arithmetic, C11 Montgomery (Uint methods), C12 gcd/lcm/extended gcd, C13 pow/log/root.
use ruint::Uint;
use serde_json::Value;
use uxh::common::*;
use uxh::w;

pub fn run(scn: &Obj) -> Value {
    let bits = scn["bits"].as_u64().unwrap() as usize;
    w!(bits, run_w, scn)
}

fn run_w<const B: usize, const L: usize>(scn: &Obj) -> Value {
    let mut ev = Ev::new(scn);
    let op = scn["op"].as_str().unwrap();
    let u = |k: &str| -> Uint<B, L> { j_to_uint(&scn[k]) };
    match op {
        "modular" => {
            let (a, b, m) = (u("a"), u("b"), u("m"));
            ev.rec("reduce", || a.reduce_mod(m));
            ev.rec("add", || a.add_mod(b, m));
            ev.rec("mul", || a.mul_mod(b, m));
        }
        "powmod" => {
            let (a, e, m) = (u("a"), u("e"), u("m"));
            ev.rec("pow", || a.pow_mod(e, m));
        }
        "invmod" => {
            let (a, m) = (u("a"), u("m"));
            ev.rec("inv", || a.inv_mod(m));
            // the public free function behind the method takes the same (not necessarily reduced) arguments
            ev.rec("alg_inv", || ruint::algorithms::inv_mod(a, m));
        }
        "redc" => {
            let (a, b, m) = (u("a"), u("b"), u("m"));
            let inv = j_to_u64(&scn["inv"]);
            ev.rec("mul", || a.mul_redc(b, m, inv));
            ev.rec("sq", || a.square_redc(m, inv));
        }
        "gcd" => {
            let (a, b) = (u("a"), u("b"));
            ev.rec("gcd", || a.gcd(b));
            ev.rec("lcm", || a.lcm(b));
            ev.rec("ext", || a.gcd_extended(b));
            ev.rec("alg_gcd", || ruint::algorithms::gcd(a, b));
            ev.rec("alg_ext", || ruint::algorithms::gcd_extended(a, b));
        }
        "pow" => {
            let (a, e) = (u("a"), u("e"));
            ev.rec("opow", || a.overflowing_pow(e));
            ev.rec("cpow", || a.checked_pow(e));
            ev.rec("spow", || a.saturating_pow(e));
            ev.rec("wpow", || a.wrapping_pow(e));
            ev.rec("pow", || a.pow(e));
        }
        "log" => {
            let (v, b) = (u("a"), u("b"));
            ev.rec("log", || N(v.log(b)));
            ev.rec("clog", || v.checked_log(b).map(N));
        }
        "log210" => {
            let v = u("a");
            ev.rec("log2", || N(v.log2()));
            ev.rec("log10", || N(v.log10()));
            ev.rec("clog2", || v.checked_log2().map(N));
            ev.rec("clog10", || v.checked_log10().map(N));
        }
        "root" => {
            let v = u("a");
            let d = j_to_usize(&scn["d"]);
            ev.rec("root", || v.root(d));
        }
        other => panic!("math: unknown op {other:?}"),
    }
    ev.finish()
}
