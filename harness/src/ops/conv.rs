//! C07 integer / limb-slice / Uint-to-Uint conversions, C18 float conversions.
#![allow(deprecated)]
use ruint::{FromUintError, ToUintError, Uint};
use serde_json::Value;
use uxh::common::*;
use uxh::w;

pub fn run(scn: &Obj) -> Value {
    let bits = scn["bits"].as_u64().unwrap() as usize;
    if scn["op"] == "uu" {
        return run_uu(scn);
    }
    // two widths far beyond the compiled list, for the Uint -> float direction only: exponents above 2^16 (an exponent
    // squeezed through a 16-bit type wraps only there)
    if scn["op"] == "to_f" && bits == 65700 {
        return run_w::<65700, 1027>(scn);
    }
    if scn["op"] == "to_f" && bits == 70000 {
        return run_w::<70000, 1094>(scn);
    }
    w!(bits, run_w, scn)
}

/// Result<Uint, ToUintError<Uint>> -> [class, payload]
fn to_res<const B: usize, const L: usize>(r: Result<Uint<B, L>, ToUintError<Uint<B, L>>>) -> Value {
    match r {
        Ok(n) => ("ok", n).to_j(),
        Err(ToUintError::ValueTooLarge(b, n)) => {
            assert_eq!(b, B);
            ("large", n).to_j()
        }
        Err(ToUintError::ValueNegative(b, n)) => {
            assert_eq!(b, B);
            ("neg", n).to_j()
        }
        Err(ToUintError::NotANumber(b)) => {
            assert_eq!(b, B);
            ("nan", Uint::<B, L>::ZERO).to_j()
        }
    }
}

/// A signed machine integer as [negative?, magnitude bytes].
struct Sg(i128, u128); // (sign source, unsigned source) - exactly one is used
fn signed_j(v: i128) -> Value {
    (v < 0, Bn(v.unsigned_abs())).to_j()
}
fn unsigned_j(v: u128) -> Value {
    (false, Bn(v)).to_j()
}

macro_rules! from_int {
    ($ev:expr, $B:ident, $L:ident, $t:ty, $v:expr) => {{
        let v: $t = $v;
        $ev.rec("try", || to_res(Uint::<$B, $L>::try_from(v)));
        $ev.rec("wr", || Uint::<$B, $L>::wrapping_from(v));
        $ev.rec("sat", || Uint::<$B, $L>::saturating_from(v));
        $ev.rec("from", || Uint::<$B, $L>::from(v));
    }};
}

macro_rules! to_int_signed {
    ($ev:expr, $a:expr, $t:ty, $conv:ident) => {{
        $ev.rec("try_r", || match <$t>::try_from(&$a) {
            Ok(v) => Value::Array(vec!["ok".to_j(), $conv(v as _)]),
            Err(FromUintError::Overflow(_, w, s)) => Value::Array(vec!["ovf".to_j(), $conv(w as _), $conv(s as _)]),
        });
        $ev.rec("try_v", || match <$t>::try_from($a) {
            Ok(v) => Value::Array(vec!["ok".to_j(), $conv(v as _)]),
            Err(FromUintError::Overflow(_, w, s)) => Value::Array(vec!["ovf".to_j(), $conv(w as _), $conv(s as _)]),
        });
        $ev.rec("to", || $conv($a.to::<$t>() as _));
        $ev.rec("wto", || $conv($a.wrapping_to::<$t>() as _));
        $ev.rec("sto", || $conv($a.saturating_to::<$t>() as _));
    }};
}

fn run_w<const B: usize, const L: usize>(scn: &Obj) -> Value {
    let mut ev = Ev::new(scn);
    let op = scn["op"].as_str().unwrap();
    match op {
        "from_int" => {
            let t = scn["t"].as_str().unwrap();
            let neg = scn["sg"].as_bool().unwrap();
            let mag = j_to_u128(&scn["v"]);
            let sv: i128 = if neg { (mag as i128).wrapping_neg() } else { mag as i128 };
            match t {
                "bool" => from_int!(ev, B, L, bool, mag != 0),
                "u8" => from_int!(ev, B, L, u8, mag as u8),
                "u16" => from_int!(ev, B, L, u16, mag as u16),
                "u32" => from_int!(ev, B, L, u32, mag as u32),
                "u64" => from_int!(ev, B, L, u64, mag as u64),
                "u128" => from_int!(ev, B, L, u128, mag),
                "usize" => from_int!(ev, B, L, usize, mag as usize),
                "i8" => from_int!(ev, B, L, i8, sv as i8),
                "i16" => from_int!(ev, B, L, i16, sv as i16),
                "i32" => from_int!(ev, B, L, i32, sv as i32),
                "i64" => from_int!(ev, B, L, i64, sv as i64),
                "i128" => from_int!(ev, B, L, i128, sv),
                "isize" => from_int!(ev, B, L, isize, sv as isize),
                other => panic!("from_int: type {other}"),
            }
        }
        "to_int" => {
            let a: Uint<B, L> = j_to_uint(&scn["a"]);
            let t = scn["t"].as_str().unwrap();
            fn bj(v: bool) -> Value { unsigned_j(v as u128) }
            match t {
                "bool" => {
                    ev.rec("try_r", || match bool::try_from(&a) {
                        Ok(v) => Value::Array(vec!["ok".to_j(), bj(v)]),
                        Err(FromUintError::Overflow(_, w, s)) => Value::Array(vec!["ovf".to_j(), bj(w), bj(s)]),
                    });
                    ev.rec("try_v", || match bool::try_from(a) {
                        Ok(v) => Value::Array(vec!["ok".to_j(), bj(v)]),
                        Err(FromUintError::Overflow(_, w, s)) => Value::Array(vec!["ovf".to_j(), bj(w), bj(s)]),
                    });
                    ev.rec("to", || bj(a.to::<bool>()));
                    ev.rec("wto", || bj(a.wrapping_to::<bool>()));
                    ev.rec("sto", || bj(a.saturating_to::<bool>()));
                }
                "u8" => to_int_signed!(ev, a, u8, unsigned_j),
                "u16" => to_int_signed!(ev, a, u16, unsigned_j),
                "u32" => to_int_signed!(ev, a, u32, unsigned_j),
                "u64" => to_int_signed!(ev, a, u64, unsigned_j),
                "u128" => to_int_signed!(ev, a, u128, unsigned_j),
                "usize" => to_int_signed!(ev, a, usize, unsigned_j),
                "i8" => to_int_signed!(ev, a, i8, signed_j),
                "i16" => to_int_signed!(ev, a, i16, signed_j),
                "i32" => to_int_signed!(ev, a, i32, signed_j),
                "i64" => to_int_signed!(ev, a, i64, signed_j),
                "i128" => to_int_signed!(ev, a, i128, signed_j),
                "isize" => to_int_signed!(ev, a, isize, signed_j),
                other => panic!("to_int: type {other}"),
            }
        }
        "limbs" => {
            // every limb-slice constructor; limbs arrive as BigNat each
            let sl: Vec<u64> = scn["xs"].as_array().unwrap().iter().map(j_to_u64).collect();
            ev.rec("from", || Uint::<B, L>::from_limbs_slice(&sl));
            ev.rec("checked", || Uint::<B, L>::checked_from_limbs_slice(&sl));
            ev.rec("wrapping", || Uint::<B, L>::wrapping_from_limbs_slice(&sl));
            ev.rec("overflowing", || Uint::<B, L>::overflowing_from_limbs_slice(&sl));
            ev.rec("saturating", || Uint::<B, L>::saturating_from_limbs_slice(&sl));
            if sl.len() == L {
                let mut arr = [0u64; L];
                arr.copy_from_slice(&sl);
                ev.rec("arr", || Uint::<B, L>::from_limbs(arr));
                ev.rec("arr_into", || {
                    let u = Uint::<B, L>::from_limbs(arr);
                    Raw(u.into_limbs().iter().flat_map(|l| l.to_le_bytes()).collect())
                });
            }
        }
        "from_f64" => {
            let f = f64::from_bits(j_to_u64(&scn["p"]));
            ev.rec("try", || to_res(Uint::<B, L>::try_from(f)));
            ev.rec("wr", || Uint::<B, L>::wrapping_from(f));
            ev.rec("sat", || Uint::<B, L>::saturating_from(f));
            ev.rec("from", || Uint::<B, L>::from(f));
        }
        "from_f32" => {
            let f = f32::from_bits(j_to_u64(&scn["p"]) as u32);
            ev.rec("try", || to_res(Uint::<B, L>::try_from(f)));
            ev.rec("wr", || Uint::<B, L>::wrapping_from(f));
            ev.rec("sat", || Uint::<B, L>::saturating_from(f));
            ev.rec("from", || Uint::<B, L>::from(f));
        }
        "to_f" => {
            // an ascending run of values; the floats are logged as bit patterns
            let xs: Vec<Uint<B, L>> = scn["xs"].as_array().unwrap().iter().map(j_to_uint).collect();
            ev.rec("f64v", || xs.iter().map(|x| Bn(f64::from(*x).to_bits() as u128)).collect::<Vec<_>>());
            ev.rec("f64r", || xs.iter().map(|x| Bn(f64::from(x).to_bits() as u128)).collect::<Vec<_>>());
            ev.rec("f32v", || xs.iter().map(|x| Bn(f32::from(*x).to_bits() as u128)).collect::<Vec<_>>());
            ev.rec("f32r", || xs.iter().map(|x| Bn(f32::from(x).to_bits() as u128)).collect::<Vec<_>>());
        }
        "consts" => {
            ev.rec("zero", || Uint::<B, L>::ZERO);
            ev.rec("one", || Uint::<B, L>::ONE);
            ev.rec("min", || Uint::<B, L>::MIN);
            ev.rec("max", || Uint::<B, L>::MAX);
            ev.rec("default", || Uint::<B, L>::default());
            ev.rec("bits", || N(Uint::<B, L>::BITS));
            ev.rec("limbs", || N(Uint::<B, L>::LIMBS));
            ev.rec("bytes", || N(Uint::<B, L>::BYTES));
            ev.rec("mask", || Bn(Uint::<B, L>::MASK as u128));
            ev.rec("nlimbs", || N(ruint::nlimbs(B)));
            ev.rec("maskf", || Bn(ruint::mask(B) as u128));
        }
        other => panic!("conv: unknown op {other:?}"),
    }
    let _ = Sg(0, 0);
    ev.finish()
}

fn uu<const BS: usize, const LS: usize, const BD: usize, const LD: usize>(scn: &Obj) -> Value {
    let mut ev = Ev::new(scn);
    let a: Uint<BS, LS> = j_to_uint(&scn["a"]);
    use ruint::{UintTryFrom, UintTryTo};
    ev.rec("try", || to_res(<Uint<BD, LD> as UintTryFrom<Uint<BS, LS>>>::uint_try_from(a)));
    ev.rec("from", || Uint::<BD, LD>::from(a));
    ev.rec("wr", || Uint::<BD, LD>::wrapping_from(a));
    ev.rec("sat", || Uint::<BD, LD>::saturating_from(a));
    ev.rec("tryto", || match <Uint<BS, LS> as UintTryTo<Uint<BD, LD>>>::uint_try_to(&a) {
        Ok(v) => Value::Array(vec!["ok".to_j(), v.to_j()]),
        Err(FromUintError::Overflow(_, w, s)) => Value::Array(vec!["ovf".to_j(), w.to_j(), s.to_j()]),
    });
    ev.rec("to", || a.to::<Uint<BD, LD>>());
    ev.rec("wto", || a.wrapping_to::<Uint<BD, LD>>());
    ev.rec("sto", || a.saturating_to::<Uint<BD, LD>>());
    ev.rec("from_uint", || Uint::<BD, LD>::from_uint(a));
    ev.rec("cfrom_uint", || Uint::<BD, LD>::checked_from_uint(a));
    ev.finish()
}

macro_rules! uu_pairs {
    ($scn:expr, $ba:expr, $bb:expr, [$(($a:literal, $b:literal)),* $(,)?]) => {
        match ($ba, $bb) {
            $( ($a, $b) => uu::<$a, { ruint::nlimbs($a) }, $b, { ruint::nlimbs($b) }>($scn), )*
            other => panic!("conversion pair {other:?} is not compiled into the executor"),
        }
    };
}

fn run_uu(scn: &Obj) -> Value {
    let ba = scn["bits"].as_u64().unwrap() as usize;
    let bb = scn["bits2"].as_u64().unwrap() as usize;
    uu_pairs!(scn, ba, bb, [
        (0, 0), (0, 1), (1, 0), (0, 64), (64, 0), (1, 1), (1, 2), (2, 1), (7, 8), (8, 7), (8, 8), (63, 64), (64, 63),
        (64, 64), (64, 65), (65, 64), (65, 65), (65, 127), (127, 65), (64, 128), (128, 64), (127, 128), (128, 127),
        (128, 129), (129, 128), (129, 192), (192, 129), (100, 250), (250, 100), (250, 256), (256, 250), (255, 257),
        (257, 255), (256, 256), (256, 512), (512, 256), (60, 250), (250, 60), (13, 4096), (4096, 13), (1024, 1100),
        (1100, 1024), (4096, 4096), (521, 64), (64, 521)
    ])
}
