//! Replay of UintMachine behaviours (spec -> implementation direction).
//! op "t": one transition emitted by TLC's exhaustive exploration (inputs a, b, m, k; expected v, f).
//! op "h": one simulated history: the real register file is stepped and compared after every step.
use ruint::Uint;
use serde_json::Value;
use uxh::common::*;
use uxh::w;

pub fn run(scn: &Obj) -> Value {
    let bits = scn["bits"].as_u64().unwrap() as usize;
    w!(bits, run_w, scn)
}

/// The real operation behind a machine action: (value written, observation flag).
fn apply<const B: usize, const L: usize>(op: &str, a: Uint<B, L>, b: Uint<B, L>, m: Uint<B, L>, k: usize) -> (Uint<B, L>, bool) {
    type U<const B: usize, const L: usize> = Uint<B, L>;
    // the operator-trait operations have several shapes (by value, by reference, assigning) that must all honour the same
    // contract; which one a step uses is a deterministic function of its operands, so that every shape is reached
    let shape = (a.as_limbs().first().copied().unwrap_or(0) as usize).wrapping_add(k).wrapping_add(b.as_limbs().first().copied().unwrap_or(0) as usize >> 1) % 3;
    match op {
        "and" if shape == 1 => (&a & &b, false),
        "and" if shape == 2 => { let mut x = a; x &= &b; (x, false) }
        "or" if shape == 1 => (&a | b, false),
        "or" if shape == 2 => { let mut x = a; x |= b; (x, false) }
        "xor" if shape == 1 => (a ^ &b, false),
        "xor" if shape == 2 => { let mut x = a; x ^= &b; (x, false) }
        "not" if shape >= 1 => (!&a, false),
        "wneg" if shape == 1 => (-&a, !a.is_zero()),
        "wneg" if shape == 2 => (-a, !a.is_zero()),
        "wadd" if shape == 1 => (&a + &b, false),
        "wadd" if shape == 2 => { let mut x = a; x += &b; (x, false) }
        "wsub" if shape == 1 => (&a - b, false),
        "wsub" if shape == 2 => { let mut x = a; x -= b; (x, false) }
        "wmul" if shape == 1 => (a * &b, false),
        "wmul" if shape == 2 => { let mut x = a; x *= &b; (x, false) }
        "shl" if shape == 1 => (a << &k, false),
        "shl" if shape == 2 => { let mut x = a; x <<= k; (x, false) }
        "shr" if shape == 1 => (a >> &k, false),
        "shr" if shape == 2 => { let mut x = a; x >>= k; (x, false) }
        "wadd" => (a.wrapping_add(b), false),
        "wsub" => (a.wrapping_sub(b), false),
        "wmul" => (a.wrapping_mul(b), false),
        "sadd" => (a.saturating_add(b), false),
        "ssub" => (a.saturating_sub(b), false),
        "smul" => (a.saturating_mul(b), false),
        "adiff" => (a.abs_diff(b), false),
        "and" => (a & b, false),
        "or" => (a | b, false),
        "xor" => (a ^ b, false),
        "min" => (a.min(b), false),
        "max" => (a.max(b), false),
        "gcd" => (a.gcd(b), false),
        "oadd" => a.overflowing_add(b),
        "osub" => a.overflowing_sub(b),
        "omul" => a.overflowing_mul(b),
        "cmp" => (a, a < b),
        "lcm" => match a.lcm(b) { Some(l) => (l, true), None => (m, false) },
        "div" => (a / b, false),
        "rem" => (a % b, false),
        "divceil" => (a.div_ceil(b), false),
        "wneg" => a.overflowing_neg(),
        "not" => (!a, false),
        "revbits" => (a.reverse_bits(), false),
        "lz" => (U::<B, L>::wrapping_from(a.leading_zeros() as u64), false),
        "tz" => (U::<B, L>::wrapping_from(a.trailing_zeros() as u64), false),
        "popcount" => (U::<B, L>::wrapping_from(a.count_ones() as u64), false),
        "bitlen" => (U::<B, L>::wrapping_from(a.bit_len() as u64), false),
        "invring" => match a.inv_ring() { Some(x) => (x, true), None => (m, false) },
        "npow2" => match a.checked_next_power_of_two() { Some(x) => (x, true), None => (m, false) },
        "rt_dec" => (U::<B, L>::from_str_radix(&a.to_string(), 10).unwrap(), false),
        "rt_hex" => (format!("{a:#x}").parse::<U<B, L>>().unwrap(), false),
        "rt_be" => (U::<B, L>::from_be_slice(&a.to_be_bytes_vec()), false),
        "rt_le" => (U::<B, L>::try_from_le_slice(&a.to_le_bytes_trimmed_vec()).unwrap(), false),
        "rt_limbs" => (U::<B, L>::from_limbs_slice(a.as_limbs()), false),
        "via_u64" => (U::<B, L>::wrapping_from(a.wrapping_to::<u64>()), a.bit_len() > 64),
        "shl" => (a << k, false),
        "shr" => (a >> k, false),
        "ashr" => (a.arithmetic_shr(k), false),
        "rotl" => (a.rotate_left(k), false),
        "rotr" => (a.rotate_right(k), false),
        "oshl" => a.overflowing_shl(k),
        "oshr" => a.overflowing_shr(k),
        "pow" => a.overflowing_pow(U::<B, L>::wrapping_from(k as u64)),
        "root" => (a.root(k + 1), false),
        "setbit1" => { let mut x = a; let old = a.bit(k); x.set_bit(k, true); (x, old) }
        "setbit0" => { let mut x = a; let old = a.bit(k); x.set_bit(k, false); (x, old) }
        "load" => match U::<B, L>::try_from(k as u64) { Ok(x) => (x, false), Err(_) => (U::<B, L>::wrapping_from(k as u64), true) },
        "reduce" => (a.reduce_mod(m), false),
        "addmod" => (a.add_mod(b, m), false),
        "mulmod" => (a.mul_mod(b, m), false),
        "wto" | "sto" | "cto" => conv(op, a, m, k),
        "cnmo" => match a.checked_next_multiple_of(b) { Some(x) => (x, true), None => (m, false) },
        "powmod" => (a.pow_mod(U::<B, L>::wrapping_from(k as u64), m), false),
        // ---- second family (UintMachine.tla: Ops2)
        "cadd" => match a.checked_add(b) { Some(x) => (x, true), None => (m, false) },
        "csub" => match a.checked_sub(b) { Some(x) => (x, true), None => (m, false) },
        "cmul" => match a.checked_mul(b) { Some(x) => (x, true), None => (m, false) },
        "cdiv" => match a.checked_div(b) { Some(x) => (x, true), None => (m, false) },
        "crem" => match a.checked_rem(b) { Some(x) => (x, true), None => (m, false) },
        "invmod" => match a.inv_mod(b) { Some(x) => (x, true), None => (m, false) },
        "clog" => match a.checked_log(b) { Some(x) => (num::<B, L>(x), true), None => (m, false) },
        "sum3" => ([a, b, m].iter().sum::<U<B, L>>(), false),
        "prod3" => ([a, b, m].into_iter().product::<U<B, L>>(), false),
        "redc" => {
            let pre = B > 0 && (m.as_limbs()[0] & 1) == 1 && m.as_limbs().iter().enumerate().any(|(i, l)| (i == 0 && *l >= 3) || (i > 0 && *l != 0)) && a < m && b < m;
            if pre {
                // inv = -m^-1 mod 2^64 by Newton iteration on the low limb (harness arithmetic, not the library's)
                let m0 = m.as_limbs()[0];
                let mut x = 1u64;
                for _ in 0..6 {
                    x = x.wrapping_mul(2u64.wrapping_sub(m0.wrapping_mul(x)));
                }
                let inv = x.wrapping_neg();
                if shape == 0 && a == b { (a.square_redc(m, inv), true) } else { (a.mul_redc(b, m, inv), true) }
            } else {
                (m, false)
            }
        }
        "lo" => (num::<B, L>(a.leading_ones()), false),
        "to" => (num::<B, L>(a.trailing_ones()), false),
        "cz" => (num::<B, L>(a.count_zeros()), false),
        "bytelen" => (num::<B, L>(a.byte_len()), false),
        "msb" => { let (v, e) = a.most_significant_bits(); (U::<B, L>::wrapping_from(v), e > 0) }
        "clog2" => match a.checked_log2() { Some(x) => (num::<B, L>(x), true), None => (m, false) },
        "clog10" => match a.checked_log10() { Some(x) => (num::<B, L>(x), true), None => (m, false) },
        "cneg" => match a.checked_neg() { Some(x) => (x, true), None => (m, false) },
        "zeroize" => { let mut x = a; zeroize::Zeroize::zeroize(&mut x); (x, false) }
        "setone" => { let mut x = a; num_traits::One::set_one(&mut x); (x, false) }
        "rt_oct" => (format!("{a:#o}").parse::<U<B, L>>().unwrap(), false),
        "rt_bin" => (format!("{a:#b}").parse::<U<B, L>>().unwrap(), false),
        "rt_b36" => (U::<B, L>::from_base_be(36, a.to_base_be(36)).unwrap(), false),
        "rt_bits" => (ruint::Bits::<B, L>::from(a).into_inner(), false),
        "rt_big" => (U::<B, L>::try_from(num_bigint::BigUint::from(a)).unwrap(), false),
        "rt_ssz" => (<U<B, L> as ssz::Decode>::from_ssz_bytes(&ssz::Encode::as_ssz_bytes(&a)).unwrap(), false),
        "rt_rlp" => {
            let mut v = Vec::new();
            alloy_rlp::Encodable::encode(&a, &mut v);
            let mut sl = &v[..];
            let x = <U<B, L> as alloy_rlp::Decodable>::decode(&mut sl).unwrap();
            assert!(sl.is_empty());
            (x, false)
        }
        "rt_borsh" => (borsh::from_slice::<U<B, L>>(&borsh::to_vec(&a).unwrap()).unwrap(), false),
        "rt_der" => { use der::{Decode, Encode}; (U::<B, L>::from_der(&a.to_der().unwrap()).unwrap(), false) }
        "rt_scale" => { use parity_scale_codec::{Decode, Encode}; let v = a.encode(); (U::<B, L>::decode(&mut &v[..]).unwrap(), false) }
        "rt_compact" => {
            use parity_scale_codec::{Decode, Encode};
            use ruint::support::scale::{CompactRefUint, CompactUint};
            let v = CompactRefUint(&a).encode();
            (CompactUint::<B, L>::decode(&mut &v[..]).unwrap().0, false)
        }
        "rt_json" => (serde_json::from_slice::<U<B, L>>(&serde_json::to_vec(&a).unwrap()).unwrap(), false),
        "rt_bincode" => (bincode::deserialize::<U<B, L>>(&bincode::serialize(&a).unwrap()).unwrap(), false),
        "cshl" => match a.checked_shl(k) { Some(x) => (x, true), None => (m, false) },
        "cshr" => match a.checked_shr(k) { Some(x) => (x, true), None => (m, false) },
        "sshl" => (a.saturating_shl(k), false),
        "wshl" => (a.wrapping_shl(k), false),
        "wshr" => (a.wrapping_shr(k), false),
        "cbyte" => match a.checked_byte(k) { Some(x) => (num::<B, L>(x as usize), true), None => (m, false) },
        "cpow" => match a.checked_pow(U::<B, L>::wrapping_from(k as u64)) { Some(x) => (x, true), None => (m, false) },
        "spow" => (a.saturating_pow(U::<B, L>::wrapping_from(k as u64)), false),
        "wpow" => (a.wrapping_pow(U::<B, L>::wrapping_from(k as u64)), false),
        "rt_base" => (U::<B, L>::from_base_le(k as u64, a.to_base_le(k as u64)).unwrap(), false),
        "ctsel" => (<U<B, L> as subtle::ConditionallySelectable>::conditional_select(&a, &b, subtle::Choice::from(k as u8)), false),
        other => panic!("mach: unknown op {other:?}"),
    }
}

/// `U::wrapping_from(x as u64)`: how the machine writes a native count into a register.
fn num<const B: usize, const L: usize>(x: usize) -> Uint<B, L> {
    Uint::<B, L>::wrapping_from(x as u64)
}

/// Uint<B> -> Uint<K> -> Uint<B> with the three conversion disciplines; flag = the first leg was lossless.
fn conv<const B: usize, const L: usize>(op: &str, a: Uint<B, L>, m: Uint<B, L>, k: usize) -> (Uint<B, L>, bool) {
    use ruint::UintTryTo;
    fn via<const B: usize, const L: usize, const K: usize, const KL: usize>(op: &str, a: Uint<B, L>, m: Uint<B, L>) -> (Uint<B, L>, bool) {
        // both directions of the conversion traits are separate impls (`x.uint_try_to()` / `T::uint_try_from(x)`, and the
        // wrapping / saturating pairs): which one a step uses is a deterministic function of its operand (seed Q4-A changed
        // only the `*_from` direction)
        use ruint::UintTryFrom;
        let from_dir = a.as_limbs().first().copied().unwrap_or(0) & 2 == 0;
        let r: Result<Uint<K, KL>, _> = if from_dir { Uint::<K, KL>::uint_try_from(a).map_err(|_| ()) } else { a.uint_try_to().map_err(|_| ()) };
        let fits = r.is_ok();
        match op {
            "wto" if from_dir => (Uint::<B, L>::wrapping_from(Uint::<K, KL>::wrapping_from(a)), fits),
            "sto" if from_dir => (Uint::<B, L>::saturating_from(Uint::<K, KL>::saturating_from(a)), fits),
            "wto" => (a.wrapping_to::<Uint<K, KL>>().wrapping_to::<Uint<B, L>>(), fits),
            "sto" => (a.saturating_to::<Uint<K, KL>>().saturating_to::<Uint<B, L>>(), fits),
            _ => match r {
                Ok(x) if from_dir => (Uint::<B, L>::uint_try_from(x).ok().expect("way back"), true),
                Ok(x) => (Uint::<B, L>::from(x), true),       // panics if the way back does not fit
                Err(_) => (m, false),
            },
        }
    }
    match k {
        1 => via::<B, L, 1, 1>(op, a, m),
        3 => via::<B, L, 3, 1>(op, a, m),
        63 => via::<B, L, 63, 1>(op, a, m),
        65 => via::<B, L, 65, 2>(op, a, m),
        200 => via::<B, L, 200, 4>(op, a, m),
        other => panic!("mach: unknown conversion width {other}"),
    }
}

fn run_w<const B: usize, const L: usize>(scn: &Obj) -> Value {
    let mut ev = Ev::new(scn);
    let kind = scn["g"].as_str().unwrap();
    match kind {
        "t" => {
            let op = scn["op"].as_str().unwrap();
            let (a, b, m): (Uint<B, L>, Uint<B, L>, Uint<B, L>) = (j_to_uint(&scn["a"]), j_to_uint(&scn["b"]), j_to_uint(&scn["m"]));
            let k = scn["k"].as_u64().unwrap() as usize;
            // pow with an exponent that does not fit the width is outside the comparable domain (wrapping_from would change it)
            ev.rec("got", || apply(op, a, b, m, k));
        }
        "h" => {
            let steps = scn["steps"].as_array().unwrap();
            let mut regs: Vec<Uint<B, L>> = steps[0]["regs"].as_array().unwrap().iter().map(j_to_uint).collect();
            let mut diverged: Option<usize> = None;
            let mut trace: Vec<Value> = vec![];
            for (i, st) in steps.iter().enumerate().skip(1) {
                let op = st["op"].as_str().unwrap().to_string();
                let (d, s1, s2) = (st["d"].as_u64().unwrap() as usize - 1, st["s1"].as_u64().unwrap() as usize - 1, st["s2"].as_u64().unwrap() as usize - 1);
                let k = st["k"].as_u64().unwrap() as usize;
                let (a, b, m) = (regs[s1], regs[s2], regs[d]);
                let r = std::panic::catch_unwind(std::panic::AssertUnwindSafe(|| apply(&op, a, b, m, k)));
                match r {
                    Ok((v, f)) => {
                        regs[d] = v;
                        let want: Vec<Uint<B, L>> = st["regs"].as_array().unwrap().iter().map(j_to_uint_lossy).collect();
                        let fl = st["f"].as_bool().unwrap();
                        let same = want == regs && fl == f && st["regs"].as_array().unwrap().iter().zip(regs.iter()).all(|(w, r)| *w == r.to_j());
                        if !same && diverged.is_none() {
                            diverged = Some(i);
                            trace.push(Value::Array(vec![Value::from(i as u64), op.to_j(), regs.clone().to_j(), f.to_j()]));
                            break;
                        }
                    }
                    Err(_) => {
                        diverged = Some(i);
                        trace.push(Value::Array(vec![Value::from(i as u64), op.to_j(), "panic".to_j()]));
                        break;
                    }
                }
            }
            ev.put("diverged", match diverged { Some(i) => Value::from(i as u64), None => Value::from(0u64) });
            ev.put("detail", Value::Array(trace));
            ev.put("steps_done", Value::from(steps.len() as u64 - 1));
        }
        "d" => {
            // implementation -> specification direction for the machine: the DRIVER (not TLC) chooses a history with its
            // own generator, runs it on the real register file and logs every step; MachineTrace.tla validates the log.
            let seed = scn["seed"].as_u64().unwrap();
            let nsteps = scn["steps"].as_u64().unwrap() as usize;
            let mut rng = XorShift(seed.wrapping_mul(0x9e37_79b9_7f4a_7c15) | 1);
            let mut regs: Vec<Uint<B, L>> = (0..4).map(|_| seed_value::<B, L>(&mut rng)).collect();
            let mut steps: Vec<Value> = vec![serde_json::json!({"op": "init", "d": 0, "s1": 0, "s2": 0, "k": 0, "f": false, "pan": false, "regs": regs.clone().to_j()})];
            let mut n = 0;
            let mut guard = 0;
            while n < nsteps && guard < 50 * nsteps {
                guard += 1;
                let op = DRIVE_OPS[(rng.next() % DRIVE_OPS.len() as u64) as usize];
                let (d, s1, s2) = ((rng.next() % 4) as usize, (rng.next() % 4) as usize, (rng.next() % 4) as usize);
                if matches!(op, "div" | "rem" | "divceil") && regs[s2].is_zero() {
                    continue;
                }
                // the specification computes these by Euclid's algorithm over BigNats (seconds per step above two limbs): drawn less often there
                if B > 130 && matches!(op, "invmod" | "redc" | "gcd" | "lcm") && rng.next() % 4 != 0 {
                    continue;
                }
                let k = pick_imm(op, B, &mut rng);
                let (a, b, m) = (regs[s1], regs[s2], regs[d]);
                let r = std::panic::catch_unwind(std::panic::AssertUnwindSafe(|| apply(op, a, b, m, k)));
                n += 1;
                match r {
                    Ok((v, f)) => {
                        regs[d] = v;
                        // every 7th step feeds a fresh boundary value in, so that histories do not collapse to 0 / MAX
                        steps.push(serde_json::json!({"op": op, "d": d + 1, "s1": s1 + 1, "s2": s2 + 1, "k": k, "f": f, "pan": false, "regs": regs.clone().to_j()}));
                    }
                    Err(_) => {
                        steps.push(serde_json::json!({"op": op, "d": d + 1, "s1": s1 + 1, "s2": s2 + 1, "k": k, "f": false, "pan": true, "regs": regs.clone().to_j()}));
                        break;
                    }
                }
            }
            ev.put("hist", serde_json::json!({"bits": B, "steps": steps}));
        }
        other => panic!("mach: unknown kind {other:?}"),
    }
    ev.finish()
}

/// Operations the driver draws from (every action of UintMachine.tla).
const DRIVE_OPS: &[&str] = &[
    "wadd", "wsub", "wmul", "sadd", "ssub", "smul", "adiff", "and", "or", "xor", "min", "max", "gcd", "oadd", "osub", "omul", "cmp", "lcm",
    "div", "rem", "divceil", "wneg", "not", "revbits", "lz", "tz", "popcount", "bitlen", "invring", "npow2", "rt_dec", "rt_hex", "rt_be",
    "rt_le", "rt_limbs", "via_u64", "shl", "shr", "ashr", "rotl", "rotr", "oshl", "oshr", "pow", "root", "setbit1", "setbit0", "load",
    "reduce", "addmod", "mulmod", "wto", "sto", "cto", "cnmo", "powmod",
    // second family
    "cadd", "csub", "cmul", "cdiv", "crem", "invmod", "clog", "sum3", "prod3", "redc", "lo", "to", "cz", "bytelen", "msb", "clog2", "clog10",
    "cneg", "zeroize", "setone", "rt_oct", "rt_bin", "rt_b36", "rt_bits", "rt_big", "rt_ssz", "rt_rlp", "rt_borsh", "rt_der", "rt_scale",
    "rt_compact", "rt_json", "rt_bincode", "cshl", "cshr", "sshl", "wshl", "wshr", "cbyte", "cpow", "spow", "wpow", "rt_base", "ctsel",
    // the masking-sensitive ones once more, so that they make up about a third of every history
    "ashr", "not", "wneg", "rotl", "rotr", "revbits", "shl", "oshl", "wmul", "wsub", "xor", "load", "load", "wto", "sto",
];

struct XorShift(u64);
impl XorShift {
    fn next(&mut self) -> u64 {
        let mut x = self.0;
        x ^= x << 13;
        x ^= x >> 7;
        x ^= x << 17;
        self.0 = x;
        x
    }
}

fn seed_value<const B: usize, const L: usize>(rng: &mut XorShift) -> Uint<B, L> {
    let mut limbs = [0u64; L];
    match rng.next() % 8 {
        0 => {}
        1 => {
            if L > 0 {
                limbs[0] = 1;
            }
        }
        2 => return Uint::MAX,
        3 => return Uint::MAX >> 1,
        4 => {
            for l in limbs.iter_mut() {
                *l = u64::MAX;
            }
            if L > 0 {
                limbs[0] = rng.next();
            }
        }
        5 => {
            if L > 0 {
                limbs[L - 1] = rng.next();
            }
        }
        _ => {
            for l in limbs.iter_mut() {
                *l = rng.next();
            }
        }
    }
    if L > 0 {
        limbs[L - 1] &= Uint::<B, L>::MASK;
    }
    if B == 0 {
        return Uint::ZERO;
    }
    let mut u = Uint::<B, L>::ZERO;
    // SAFETY: the top limb was masked above (no constructor under test on the harness's own path).
    unsafe { u.as_limbs_mut().copy_from_slice(&limbs) };
    u
}

/// Immediates: a wider choice than the specification's own `Imms` (the trace specification accepts any immediate).
fn pick_imm(op: &str, bits: usize, rng: &mut XorShift) -> usize {
    let r = rng.next();
    match op {
        "cbyte" => [0, 1, 7, 8, bits / 8, (bits + 7) / 8, (bits + 7) / 8 + 1, bits / 16, 1000][(r % 9) as usize].min(usize::MAX),
        "cpow" | "spow" | "wpow" => (r % 7) as usize,
        "rt_base" => [2usize, 3, 10, 16, 36, 255, 256, 65536, 0x7fff_ffff, 7, 1000, 0x7fff_fffe][(r % 12) as usize],
        "ctsel" => (r % 2) as usize,
        "shl" | "shr" | "ashr" | "rotl" | "rotr" | "oshl" | "oshr" | "setbit1" | "setbit0" | "cshl" | "cshr" | "sshl" | "wshl" | "wshr" => {
            let c = [0, 1, 7, 63, 64, 65, bits / 2, bits.saturating_sub(1), bits, bits + 1, bits + 64, (bits % 64) + 1, 64 * ((bits + 63) / 64)];
            if r % 3 == 0 { (r >> 8) as usize % (2 * bits + 70) } else { c[(r >> 8) as usize % c.len()] }
        }
        "pow" | "powmod" => (r % 7) as usize,
        "root" => (r % 4) as usize,
        "load" => [0usize, 1, 2, 255, 256, 65535, 65536, 0x7fff_ffff][(r % 8) as usize],
        "wto" | "sto" | "cto" => [1usize, 3, 63, 65, 200][(r % 5) as usize],
        _ => 0,
    }
}

/// expected registers come from the specification: they always fit, but stay defensive
fn j_to_uint_lossy<const B: usize, const L: usize>(v: &Value) -> Uint<B, L> {
    let limbs = j_to_limbs(v, L);
    let mut arr = [0u64; L];
    for (i, l) in limbs.iter().take(L).enumerate() {
        arr[i] = *l;
    }
    let mut u = Uint::<B, L>::ZERO;
    if L > 0 && B % 64 != 0 {
        arr[L - 1] &= (1u64 << (B % 64)) - 1;
    }
    // SAFETY: masked above.
    unsafe { u.as_limbs_mut().copy_from_slice(&arr) };
    u
}
