//! C20 facades: num-traits, num-integer, subtle, Bits wrapper, zeroize, iterator folds.
//! (The 6 operator-impl shapes per binary operator are recorded by the arith / bits groups.)
use ruint::{Bits, Uint};
use serde_json::Value;
use uxh::common::*;
use uxh::wb;

pub fn run(scn: &Obj) -> Value {
    let bits = scn["bits"].as_u64().unwrap() as usize;
    wb!(bits, run_w, scn)
}

fn ch(c: subtle::Choice) -> bool {
    c.unwrap_u8() == 1
}

fn run_w<const B: usize, const L: usize, const NB: usize>(scn: &Obj) -> Value {
    type U<const B: usize, const L: usize> = Uint<B, L>;
    let mut ev = Ev::new(scn);
    let op = scn["op"].as_str().unwrap();
    let a: U<B, L> = scn.get("a").map(j_to_uint).unwrap_or(U::<B, L>::ZERO);
    match op {
        "fac2" => {
            let b: U<B, L> = j_to_uint(&scn["b"]);
            use num_traits as nt;
            ev.rec("nt_cadd", || <U<B, L> as nt::CheckedAdd>::checked_add(&a, &b));
            ev.rec("nt_csub", || <U<B, L> as nt::CheckedSub>::checked_sub(&a, &b));
            ev.rec("nt_cmul", || <U<B, L> as nt::CheckedMul>::checked_mul(&a, &b));
            ev.rec("nt_cdiv", || <U<B, L> as nt::CheckedDiv>::checked_div(&a, &b));
            ev.rec("nt_crem", || <U<B, L> as nt::CheckedRem>::checked_rem(&a, &b));
            ev.rec("nt_cdive", || <U<B, L> as nt::CheckedEuclid>::checked_div_euclid(&a, &b));
            ev.rec("nt_creme", || <U<B, L> as nt::CheckedEuclid>::checked_rem_euclid(&a, &b));
            ev.rec("nt_dive", || <U<B, L> as nt::Euclid>::div_euclid(&a, &b));
            ev.rec("nt_divreme", || <U<B, L> as nt::Euclid>::div_rem_euclid(&a, &b));
            ev.rec("nt_cdivreme", || <U<B, L> as nt::CheckedEuclid>::checked_div_rem_euclid(&a, &b));
            ev.rec("nt_reme", || <U<B, L> as nt::Euclid>::rem_euclid(&a, &b));
            ev.rec("nt_sat_add", || <U<B, L> as nt::Saturating>::saturating_add(a, b));
            ev.rec("nt_sat_sub", || <U<B, L> as nt::Saturating>::saturating_sub(a, b));
            ev.rec("nt_sadd", || <U<B, L> as nt::SaturatingAdd>::saturating_add(&a, &b));
            ev.rec("nt_ssub", || <U<B, L> as nt::SaturatingSub>::saturating_sub(&a, &b));
            ev.rec("nt_smul", || <U<B, L> as nt::SaturatingMul>::saturating_mul(&a, &b));
            ev.rec("nt_wadd", || <U<B, L> as nt::WrappingAdd>::wrapping_add(&a, &b));
            ev.rec("nt_wsub", || <U<B, L> as nt::WrappingSub>::wrapping_sub(&a, &b));
            ev.rec("nt_wmul", || <U<B, L> as nt::WrappingMul>::wrapping_mul(&a, &b));
            ev.rec("nt_oadd", || <U<B, L> as nt::ops::overflowing::OverflowingAdd>::overflowing_add(&a, &b));
            ev.rec("nt_osub", || <U<B, L> as nt::ops::overflowing::OverflowingSub>::overflowing_sub(&a, &b));
            ev.rec("nt_omul", || <U<B, L> as nt::ops::overflowing::OverflowingMul>::overflowing_mul(&a, &b));
            ev.rec("nt_pow", || <U<B, L> as nt::Pow<U<B, L>>>::pow(a, b));
            ev.rec("nt_muladd", || <U<B, L> as nt::MulAdd>::mul_add(a, b, a));
            ev.rec("nt_muladd_as", || { let mut x = a; <U<B, L> as nt::MulAddAssign>::mul_add_assign(&mut x, b, a); x });
            // the inherent methods on the same operands (for contracts the specification leaves set-valued)
            ev.rec("in_pow", || a.pow(b));
            use num_integer::Integer;
            ev.rec("ni_div_floor", || Integer::div_floor(&a, &b));
            ev.rec("ni_mod_floor", || Integer::mod_floor(&a, &b));
            ev.rec("ni_gcd", || Integer::gcd(&a, &b));
            ev.rec("ni_lcm", || Integer::lcm(&a, &b));
            ev.rec("ni_multiple", || Integer::is_multiple_of(&a, &b));
            ev.rec("ni_div_rem", || Integer::div_rem(&a, &b));
            ev.rec("ni_div_ceil", || Integer::div_ceil(&a, &b));
            ev.rec("ni_div_mod_floor", || Integer::div_mod_floor(&a, &b));
            ev.rec("ni_egcd", || { let e = Integer::extended_gcd(&a, &b); (e.gcd, e.x, e.y) });
            // methods the trait PROVIDES from the required ones (an override in the crate must agree with them)
            ev.rec("ni_gcd_lcm", || Integer::gcd_lcm(&a, &b));
            ev.rec("ni_next_multiple", || Integer::next_multiple_of(&a, &b));
            ev.rec("ni_prev_multiple", || Integer::prev_multiple_of(&a, &b));
            #[allow(deprecated)]
            ev.rec("ni_divides", || Integer::divides(&a, &b));
            ev.rec("in_divrem", || a.div_rem(b));
            ev.rec("in_gcd", || a.gcd(b));
            ev.rec("in_lcm", || a.lcm(b));
            ev.rec("in_egcd", || { let (g, x, y, _s) = a.gcd_extended(b); (g, x, y) });
            use subtle::{ConditionallyNegatable, ConditionallySelectable, ConstantTimeEq, ConstantTimeGreater, ConstantTimeLess};
            ev.rec("ct_eq", || ch(a.ct_eq(&b)));
            ev.rec("ct_ne", || ch(a.ct_ne(&b)));
            ev.rec("ct_gt", || ch(a.ct_gt(&b)));
            ev.rec("ct_lt", || ch(a.ct_lt(&b)));
            ev.rec("ct_sel0", || U::<B, L>::conditional_select(&a, &b, 0.into()));
            ev.rec("ct_sel1", || U::<B, L>::conditional_select(&a, &b, 1.into()));
            ev.rec("ct_asg0", || { let mut x = a; x.conditional_assign(&b, 0.into()); x });
            ev.rec("ct_asg1", || { let mut x = a; x.conditional_assign(&b, 1.into()); x });
            ev.rec("ct_swap0", || { let (mut x, mut y) = (a, b); U::<B, L>::conditional_swap(&mut x, &mut y, 0.into()); (x, y) });
            ev.rec("ct_swap1", || { let (mut x, mut y) = (a, b); U::<B, L>::conditional_swap(&mut x, &mut y, 1.into()); (x, y) });
            ev.rec("ct_neg0", || { let mut x = a; x.conditional_negate(0.into()); x });
            ev.rec("ct_neg1", || { let mut x = a; x.conditional_negate(1.into()); x });
            // Bits wrapper: logic operators in every shape
            let (ba, bb) = (Bits::from(a), Bits::from(b));
            ev.rec("bits_and_vv", || ba & bb);
            ev.rec("bits_and_vr", || ba & &bb);
            ev.rec("bits_and_rv", || &ba & bb);
            ev.rec("bits_and_rr", || &ba & &bb);
            ev.rec("bits_and_av", || { let mut x = ba; x &= bb; x });
            ev.rec("bits_and_ar", || { let mut x = ba; x &= &bb; x });
            ev.rec("bits_or_vv", || ba | bb);
            ev.rec("bits_or_vr", || ba | &bb);
            ev.rec("bits_or_rv", || &ba | bb);
            ev.rec("bits_or_rr", || &ba | &bb);
            ev.rec("bits_or_av", || { let mut x = ba; x |= bb; x });
            ev.rec("bits_or_ar", || { let mut x = ba; x |= &bb; x });
            ev.rec("bits_xor_vv", || ba ^ bb);
            ev.rec("bits_xor_vr", || ba ^ &bb);
            ev.rec("bits_xor_rv", || &ba ^ bb);
            ev.rec("bits_xor_rr", || &ba ^ &bb);
            ev.rec("bits_xor_av", || { let mut x = ba; x ^= bb; x });
            ev.rec("bits_xor_ar", || { let mut x = ba; x ^= &bb; x });
            ev.rec("bits_eq", || ba == bb);
        }
        "fac1" => {
            use num_traits as nt;
            ev.rec("nt_zero", || <U<B, L> as nt::Zero>::zero());
            ev.rec("nt_is_zero", || <U<B, L> as nt::Zero>::is_zero(&a));
            ev.rec("nt_one", || <U<B, L> as nt::One>::one());
            ev.rec("nt_min", || <U<B, L> as nt::Bounded>::min_value());
            ev.rec("nt_max", || <U<B, L> as nt::Bounded>::max_value());
            ev.rec("nt_cneg", || <U<B, L> as nt::CheckedNeg>::checked_neg(&a));
            ev.rec("nt_wneg", || <U<B, L> as nt::WrappingNeg>::wrapping_neg(&a));
            ev.rec("nt_inv", || <U<B, L> as nt::Inv>::inv(a));
            ev.rec("in_inv", || a.inv_ring());
            ev.rec("nt_to_i64", || nt::ToPrimitive::to_i64(&a).map(|v| Bn(v as u128)));
            ev.rec("nt_to_u64", || nt::ToPrimitive::to_u64(&a).map(|v| Bn(v as u128)));
            ev.rec("nt_to_i128", || nt::ToPrimitive::to_i128(&a).map(|v| Bn(v as u128)));
            ev.rec("nt_to_u128", || nt::ToPrimitive::to_u128(&a).map(Bn));
            ev.rec("nt_to_u8", || nt::ToPrimitive::to_u8(&a).map(|v| Bn(v as u128)));
            ev.rec("nt_to_i8", || nt::ToPrimitive::to_i8(&a).map(|v| Bn(v as u128)));
            // the provided ToPrimitive / Zero / One methods (derived by the trait from the required ones; an override must agree)
            ev.rec("nt_to_i16", || nt::ToPrimitive::to_i16(&a).map(|v| Bn(v as u128)));
            ev.rec("nt_to_u16", || nt::ToPrimitive::to_u16(&a).map(|v| Bn(v as u128)));
            ev.rec("nt_to_i32", || nt::ToPrimitive::to_i32(&a).map(|v| Bn(v as u128)));
            ev.rec("nt_to_u32", || nt::ToPrimitive::to_u32(&a).map(|v| Bn(v as u128)));
            ev.rec("nt_to_isize", || nt::ToPrimitive::to_isize(&a).map(|v| Bn(v as u128)));
            ev.rec("nt_to_usize", || nt::ToPrimitive::to_usize(&a).map(|v| Bn(v as u128)));
            ev.rec("nt_is_one", || <U<B, L> as nt::One>::is_one(&a));
            ev.rec("nt_set_zero", || { let mut x = a; <U<B, L> as nt::Zero>::set_zero(&mut x); x });
            ev.rec("nt_set_one", || { let mut x = a; <U<B, L> as nt::One>::set_one(&mut x); x });
            ev.rec("nt_to_le", || Raw(<U<B, L> as nt::ToBytes>::to_le_bytes(&a)));
            ev.rec("nt_to_be", || Raw(<U<B, L> as nt::ToBytes>::to_be_bytes(&a)));
            ev.rec("nt_from_le", || <U<B, L> as nt::FromBytes>::from_le_bytes(&a.to_le_bytes_vec()));
            ev.rec("nt_from_be", || <U<B, L> as nt::FromBytes>::from_be_bytes(&a.to_be_bytes_vec()));
            ev.rec("nt_numcast", || <U<B, L> as nt::NumCast>::from(a));
            use nt::PrimInt;
            ev.rec("pi_count_ones", || N(PrimInt::count_ones(a) as usize));
            ev.rec("pi_count_zeros", || N(PrimInt::count_zeros(a) as usize));
            ev.rec("pi_lz", || N(PrimInt::leading_zeros(a) as usize));
            ev.rec("pi_lo", || N(PrimInt::leading_ones(a) as usize));
            ev.rec("pi_tz", || N(PrimInt::trailing_zeros(a) as usize));
            ev.rec("pi_to", || N(PrimInt::trailing_ones(a) as usize));
            ev.rec("pi_rev", || PrimInt::reverse_bits(a));
            ev.rec("pi_from_le", || <U<B, L> as PrimInt>::from_le(a));
            ev.rec("pi_to_le", || PrimInt::to_le(a));
            if B % 8 == 0 {
                // documented as not well-defined otherwise
                ev.rec("pi_swap", || PrimInt::swap_bytes(a));
                ev.rec("pi_from_be", || <U<B, L> as PrimInt>::from_be(a));
                ev.rec("pi_to_be", || PrimInt::to_be(a));
            }
            use num_integer::Integer;
            ev.rec("ni_even", || Integer::is_even(&a));
            ev.rec("ni_odd", || Integer::is_odd(&a));
            ev.rec("ni_inc", || { let mut x = a; Integer::inc(&mut x); x });
            ev.rec("ni_dec", || { let mut x = a; Integer::dec(&mut x); x });
            ev.rec("zeroize", || { let mut x = a; zeroize::Zeroize::zeroize(&mut x); x });
            ev.rec("zeroize_bits", || { let mut x = Bits::from(a); zeroize::Zeroize::zeroize(&mut x); x });
            // Bits forwarded unary methods
            let ba = Bits::from(a);
            ev.rec("bits_not_v", || !ba);
            ev.rec("bits_not_r", || !&ba);
            ev.rec("bits_rev", || ba.reverse_bits());
            ev.rec("bits_lz", || N(ba.leading_zeros()));
            ev.rec("bits_lo", || N(ba.leading_ones()));
            ev.rec("bits_tz", || N(ba.trailing_zeros()));
            ev.rec("bits_to", || N(ba.trailing_ones()));
            ev.rec("bits_le", || Raw(ba.as_le_bytes().to_vec()));
            ev.rec("bits_be_vec", || Raw(ba.to_be_bytes_vec()));
            ev.rec("bits_to_le", || Raw(ba.to_le_bytes::<NB>().to_vec()));
            ev.rec("bits_to_be", || Raw(ba.to_be_bytes::<NB>().to_vec()));
            ev.rec("bits_from_le", || Bits::<B, L>::from_le_bytes::<NB>(a.to_le_bytes::<NB>()));
            ev.rec("bits_from_be", || Bits::<B, L>::from_be_bytes::<NB>(a.to_be_bytes::<NB>()));
            ev.rec("bits_try_le", || Bits::<B, L>::try_from_le_slice(&a.to_le_bytes_vec()));
            ev.rec("bits_try_be", || Bits::<B, L>::try_from_be_slice(&a.to_be_bytes_vec()));
            ev.rec("bits_limbs", || Bits::<B, L>::from_limbs(*a.as_limbs()));
            ev.rec("bits_as_limbs", || Raw(ba.as_limbs().iter().flat_map(|l| l.to_le_bytes()).collect()));
            ev.rec("bits_inner", || (ba.into_inner(), *ba.as_uint()));
            ev.rec("bits_str", || match Bits::<B, L>::from_str_radix(&format!("{a:x}"), 16) { Ok(x) => vec![x], Err(_) => vec![] });
        }
        "facs" => {
            // shift-like facades; s fits u32
            let s = scn["s"].as_u64().unwrap() as u32;
            use num_traits as nt;
            ev.rec("nt_cshl", || <U<B, L> as nt::CheckedShl>::checked_shl(&a, s));
            ev.rec("nt_cshr", || <U<B, L> as nt::CheckedShr>::checked_shr(&a, s));
            ev.rec("nt_wshl", || <U<B, L> as nt::WrappingShl>::wrapping_shl(&a, s));
            ev.rec("nt_wshr", || <U<B, L> as nt::WrappingShr>::wrapping_shr(&a, s));
            use nt::PrimInt;
            ev.rec("pi_rotl", || PrimInt::rotate_left(a, s));
            ev.rec("pi_rotr", || PrimInt::rotate_right(a, s));
            ev.rec("pi_sshl", || PrimInt::signed_shl(a, s));
            ev.rec("pi_sshr", || PrimInt::signed_shr(a, s));
            ev.rec("pi_ushl", || PrimInt::unsigned_shl(a, s));
            ev.rec("pi_ushr", || PrimInt::unsigned_shr(a, s));
            if (s as u128) < (1u128 << B.min(64)) || B >= 64 {
                // the exponent must be representable in the type (outside the comparable domain otherwise)
                ev.rec("pi_pow", || PrimInt::pow(a, s));
            }
            let su = s as usize;
            let ba = Bits::from(a);
            ev.rec("bits_cshl", || ba.checked_shl(su));
            ev.rec("bits_cshr", || ba.checked_shr(su));
            ev.rec("bits_oshl", || ba.overflowing_shl(su));
            ev.rec("bits_oshr", || ba.overflowing_shr(su));
            ev.rec("bits_wshl", || ba.wrapping_shl(su));
            ev.rec("bits_wshr", || ba.wrapping_shr(su));
            ev.rec("bits_rotl", || ba.rotate_left(su));
            ev.rec("bits_rotr", || ba.rotate_right(su));
            ev.rec("bits_shl_v", || ba << su);
            ev.rec("bits_shl_r", || &ba << su);
            ev.rec("bits_shl_vr", || ba << &su);
            ev.rec("bits_shl_rr", || &ba << &su);
            ev.rec("bits_shl_av", || { let mut x = ba; x <<= su; x });
            ev.rec("bits_shl_ar", || { let mut x = ba; x <<= &su; x });
            ev.rec("bits_shr_v", || ba >> su);
            ev.rec("bits_shr_r", || &ba >> su);
            ev.rec("bits_shr_vr", || ba >> &su);
            ev.rec("bits_shr_rr", || &ba >> &su);
            ev.rec("bits_shr_av", || { let mut x = ba; x >>= su; x });
            ev.rec("bits_shr_ar", || { let mut x = ba; x >>= &su; x });
            ev.rec("bits_index", || ba[su]);
            if su < B {
                // bit_ct is documented to panic for an out-of-range index
                ev.rec("bit_ct", || ch(a.bit_ct(su)));
            }
        }
        "gen" => {
            // C04: random / arbitrary generators yield canonical values (raw limbs are logged)
            let seed = scn["seed"].as_u64().unwrap();
            let k = scn["k"].as_u64().unwrap() as usize;
            let pool = j_to_bytes(&scn["pool"]);
            ev.rec("r8_std", || { use rand_08::{Rng, SeedableRng}; let mut r = rand_08::rngs::StdRng::seed_from_u64(seed); (0..k).map(|_| r.gen::<U<B, L>>()).collect::<Vec<_>>() });
            ev.rec("r8_bits", || { use rand_08::{Rng, SeedableRng}; let mut r = rand_08::rngs::StdRng::seed_from_u64(seed); (0..k).map(|_| Bits::from(r.gen::<U<B, L>>())).collect::<Vec<_>>() });
            ev.rec("r9_with", || { use rand_09::SeedableRng; let mut r = rand_09::rngs::StdRng::seed_from_u64(seed); (0..k).map(|_| U::<B, L>::random_with(&mut r)).collect::<Vec<_>>() });
            ev.rec("r9_std", || { use rand_09::{Rng, SeedableRng}; let mut r = rand_09::rngs::StdRng::seed_from_u64(seed); (0..k).map(|_| r.random::<U<B, L>>()).collect::<Vec<_>>() });
            ev.rec("r9_rize", || { use rand_09::SeedableRng; let mut r = rand_09::rngs::StdRng::seed_from_u64(seed); (0..k).map(|_| { let mut x = a; x.randomize_with(&mut r); x }).collect::<Vec<_>>() });
            ev.rec("r9_thread", || (0..k).map(|_| U::<B, L>::random()).collect::<Vec<_>>());
            ev.rec("arb", || { use arbitrary::Arbitrary; let mut u = arbitrary::Unstructured::new(&pool); (0..k).filter_map(|_| U::<B, L>::arbitrary(&mut u).ok()).collect::<Vec<_>>() });
            ev.rec("arb_hint", || { use arbitrary::Arbitrary; let (lo, hi) = <U<B, L> as Arbitrary>::size_hint(0); (N(lo), hi.map(N)) });
            ev.rec("qc", || { use quickcheck::Arbitrary; let mut g = quickcheck::Gen::new(64); (0..k).map(|_| <U<B, L> as Arbitrary>::arbitrary(&mut g)).collect::<Vec<_>>() });
            ev.rec("prop", || {
                use proptest::strategy::{Strategy, ValueTree};
                let mut runner = proptest::test_runner::TestRunner::deterministic();
                let st = proptest::arbitrary::any::<U<B, L>>();
                (0..k).map(|_| st.new_tree(&mut runner).unwrap().current()).collect::<Vec<_>>()
            });
            ev.rec("prop_bits", || {
                use proptest::strategy::{Strategy, ValueTree};
                let mut runner = proptest::test_runner::TestRunner::deterministic();
                let st = proptest::arbitrary::any::<Bits<B, L>>();
                (0..k).map(|_| st.new_tree(&mut runner).unwrap().current()).collect::<Vec<_>>()
            });
            ev.rec("prop_shrunk", || {
                // simplification must stay inside the canonical set as well
                use proptest::strategy::{Strategy, ValueTree};
                let mut runner = proptest::test_runner::TestRunner::deterministic();
                let st = proptest::arbitrary::any::<U<B, L>>();
                let mut out = Vec::new();
                for _ in 0..k.min(8) {
                    let mut t = st.new_tree(&mut runner).unwrap();
                    for _ in 0..6 { if !t.simplify() { break; } out.push(t.current()); }
                }
                out
            });
        }
        "facp" => {
            // FromPrimitive / NumCast / Num::from_str_radix from a primitive value (sign + magnitude)
            let neg = scn["sg"].as_bool().unwrap();
            let mag = j_to_u128(&scn["v"]);
            let sv: i128 = if neg { (mag as i128).wrapping_neg() } else { mag as i128 };
            use num_traits as nt;
            if !neg {
                ev.rec("from_u128", || <U<B, L> as nt::FromPrimitive>::from_u128(mag));
                ev.rec("cast_u128", || <U<B, L> as nt::NumCast>::from(mag));
                if mag <= u64::MAX as u128 {
                    ev.rec("from_u64", || <U<B, L> as nt::FromPrimitive>::from_u64(mag as u64));
                    ev.rec("cast_u64", || <U<B, L> as nt::NumCast>::from(mag as u64));
                }
                if mag <= u8::MAX as u128 {
                    ev.rec("from_u8", || <U<B, L> as nt::FromPrimitive>::from_u8(mag as u8));
                }
            }
            if mag <= i128::MAX as u128 || (neg && mag == 1u128 << 127) {
                ev.rec("from_i128", || <U<B, L> as nt::FromPrimitive>::from_i128(sv));
                ev.rec("cast_i128", || <U<B, L> as nt::NumCast>::from(sv));
                if sv >= i64::MIN as i128 && sv <= i64::MAX as i128 {
                    ev.rec("from_i64", || <U<B, L> as nt::FromPrimitive>::from_i64(sv as i64));
                    ev.rec("cast_i64", || <U<B, L> as nt::NumCast>::from(sv as i64));
                }
            }
            if !neg {
                let txt = format!("{mag:x}");
                ev.rec("num_radix", || match <U<B, L> as nt::Num>::from_str_radix(&txt, 16) { Ok(v) => vec![v], Err(_) => vec![] });
                ev.rec("in_radix", || match U::<B, L>::from_str_radix(&txt, 16) { Ok(v) => vec![v], Err(_) => vec![] });
            }
        }
        other => panic!("fac: unknown op {other:?}"),
    }
    ev.finish()
}
