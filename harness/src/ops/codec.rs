//! C16 codec encoders / round trips, C17 decoder totality.
//! op "enc": value -> every integration's bytes, advertised lengths, and the decode of those bytes.
//! op "ref": the codec crate's own encoding of the equal u64 / u128 (reference binding).
//! op "dec": arbitrary bytes -> every decoder's outcome.
use ruint::{Bits, Uint};
use serde_json::Value;
use uxh::common::*;
use uxh::w;

pub fn run(scn: &Obj) -> Value {
    let op = scn["op"].as_str().unwrap();
    match op {
        "ref" => return run_ref(scn),
        "fixed" => return run_fixed(scn),
        _ => {}
    }
    let bits = scn["bits"].as_u64().unwrap() as usize;
    w!(bits, run_w, scn)
}

fn ok1<T: ToJ>(v: T) -> Value {
    Value::Array(vec!["ok".to_j(), v.to_j()])
}
fn ok2<T: ToJ>(v: T, consumed: usize) -> Value {
    Value::Array(vec!["ok".to_j(), v.to_j(), N(consumed).to_j()])
}
fn err() -> Value {
    Value::Array(vec!["err".to_j()])
}

const PG_TYPES: &[(&str, postgres_types::Type)] = &[
    ("bool", postgres_types::Type::BOOL),
    ("int2", postgres_types::Type::INT2),
    ("int4", postgres_types::Type::INT4),
    ("int8", postgres_types::Type::INT8),
    ("oid", postgres_types::Type::OID),
    ("money", postgres_types::Type::MONEY),
    ("numeric", postgres_types::Type::NUMERIC),
    ("bytea", postgres_types::Type::BYTEA),
    ("bit", postgres_types::Type::BIT),
    ("varbit", postgres_types::Type::VARBIT),
    ("char", postgres_types::Type::CHAR),
    ("text", postgres_types::Type::TEXT),
    ("varchar", postgres_types::Type::VARCHAR),
    ("json", postgres_types::Type::JSON),
    ("jsonb", postgres_types::Type::JSONB),
    ("float4", postgres_types::Type::FLOAT4),
    ("float8", postgres_types::Type::FLOAT8),
];

fn run_w<const B: usize, const L: usize>(scn: &Obj) -> Value {
    type U<const B: usize, const L: usize> = Uint<B, L>;
    let mut ev = Ev::new(scn);
    let op = scn["op"].as_str().unwrap();
    match op {
        "enc" => {
            let a: U<B, L> = j_to_uint(&scn["a"]);
            // ---- alloy-rlp
            ev.rec("alloy_b", || { let mut v = Vec::new(); alloy_rlp::Encodable::encode(&a, &mut v); Raw(v) });
            ev.rec("alloy_len", || N(alloy_rlp::Encodable::length(&a)));
            ev.rec("alloy_max", || N(<U<B, L> as alloy_rlp::MaxEncodedLenAssoc>::LEN));
            ev.rec("alloy_rt", || {
                let mut v = Vec::new();
                alloy_rlp::Encodable::encode(&a, &mut v);
                let mut s = &v[..];
                match <U<B, L> as alloy_rlp::Decodable>::decode(&mut s) { Ok(x) => ok2(x, v.len() - s.len()), Err(_) => err() }
            });
            // ---- fastrlp 0.3 / 0.4
            ev.rec("f3_b", || { let mut v = Vec::new(); fastrlp_03::Encodable::encode(&a, &mut v); Raw(v) });
            ev.rec("f3_len", || N(fastrlp_03::Encodable::length(&a)));
            ev.rec("f3_max", || N(<U<B, L> as fastrlp_03::MaxEncodedLenAssoc>::LEN));
            ev.rec("f3_rt", || {
                let mut v = Vec::new();
                fastrlp_03::Encodable::encode(&a, &mut v);
                let mut s = &v[..];
                match <U<B, L> as fastrlp_03::Decodable>::decode(&mut s) { Ok(x) => ok2(x, v.len() - s.len()), Err(_) => err() }
            });
            ev.rec("f4_b", || { let mut v = Vec::new(); fastrlp_04::Encodable::encode(&a, &mut v); Raw(v) });
            ev.rec("f4_len", || N(fastrlp_04::Encodable::length(&a)));
            ev.rec("f4_max", || N(<U<B, L> as fastrlp_04::MaxEncodedLenAssoc>::LEN));
            ev.rec("f4_rt", || {
                let mut v = Vec::new();
                fastrlp_04::Encodable::encode(&a, &mut v);
                let mut s = &v[..];
                match <U<B, L> as fastrlp_04::Decodable>::decode(&mut s) { Ok(x) => ok2(x, v.len() - s.len()), Err(_) => err() }
            });
            // ---- rlp (Uint and Bits)
            ev.rec("rlp_b", || Raw(rlp::encode(&a).to_vec()));
            ev.rec("rlp_rt", || match rlp::decode::<U<B, L>>(&rlp::encode(&a)) { Ok(x) => ok1(x), Err(_) => err() });
            ev.rec("rlpbits_b", || Raw(rlp::encode(&Bits::from(a)).to_vec()));
            ev.rec("rlpbits_rt", || match rlp::decode::<Bits<B, L>>(&rlp::encode(&Bits::from(a))) { Ok(x) => ok1(x), Err(_) => err() });
            // ---- SCALE fixed and compact
            {
                use parity_scale_codec::{Decode, Encode, MaxEncodedLen};
                ev.rec("scale_b", || Raw(a.encode()));
                ev.rec("scale_hint", || N(Encode::size_hint(&a)));
                ev.rec("scale_size", || N(a.encoded_size()));
                ev.rec("scale_max", || N(<U<B, L> as MaxEncodedLen>::max_encoded_len()));
                ev.rec("scale_rt", || { let v = a.encode(); let mut s = &v[..]; match U::<B, L>::decode(&mut s) { Ok(x) => ok2(x, v.len() - s.len()), Err(_) => err() } });
                use ruint::support::scale::{CompactRefUint, CompactUint};
                ev.rec("compact_b", || Raw(CompactRefUint(&a).encode()));
                ev.rec("compact_hint", || N(Encode::size_hint(&CompactRefUint(&a))));
                ev.rec("compact_rt", || {
                    let v = CompactRefUint(&a).encode();
                    let mut s = &v[..];
                    match CompactUint::<B, L>::decode(&mut s) { Ok(x) => ok2(x.0, v.len() - s.len()), Err(_) => err() }
                });
            }
            // ---- SSZ
            {
                use ssz::{Decode, Encode};
                ev.rec("ssz_b", || Raw(a.as_ssz_bytes()));
                ev.rec("ssz_len", || N(a.ssz_bytes_len()));
                ev.rec("ssz_fixed", || (<U<B, L> as Encode>::is_ssz_fixed_len(), N(<U<B, L> as Encode>::ssz_fixed_len()), N(<U<B, L> as Decode>::ssz_fixed_len())));
                ev.rec("ssz_rt", || match U::<B, L>::from_ssz_bytes(&a.as_ssz_bytes()) { Ok(x) => ok1(x), Err(_) => err() });
            }
            // ---- borsh (Uint and Bits)
            ev.rec("borsh_b", || Raw(borsh::to_vec(&a).unwrap()));
            ev.rec("borsh_rt", || match borsh::from_slice::<U<B, L>>(&borsh::to_vec(&a).unwrap()) { Ok(x) => ok1(x), Err(_) => err() });
            ev.rec("borshbits_b", || Raw(borsh::to_vec(&Bits::from(a)).unwrap()));
            ev.rec("borshbits_rt", || match borsh::from_slice::<Bits<B, L>>(&borsh::to_vec(&Bits::from(a)).unwrap()) { Ok(x) => ok1(x), Err(_) => err() });
            // ---- DER
            {
                use der::{Decode, Encode, EncodeValue};
                ev.rec("der_b", || match a.to_der() { Ok(v) => ok1(Raw(v)), Err(_) => err() });
                ev.rec("der_len", || match a.encoded_len() { Ok(l) => ok1(N(u32::from(l) as usize)), Err(_) => err() });
                ev.rec("der_vlen", || match a.value_len() { Ok(l) => ok1(N(u32::from(l) as usize)), Err(_) => err() });
                ev.rec("der_rt", || match a.to_der() { Ok(v) => match U::<B, L>::from_der(&v) { Ok(x) => ok1(x), Err(_) => err() }, Err(_) => err() });
                ev.rec("der_any", || { let any = der::asn1::Any::from(&a); (Raw(any.value().to_vec()), match U::<B, L>::try_from(&any) { Ok(x) => ok1(x), Err(_) => err() }) });
                ev.rec("der_int", || { let i = der::asn1::Int::from(&a); (Raw(i.as_bytes().to_vec()), match U::<B, L>::try_from(&i) { Ok(x) => ok1(x), Err(_) => err() }) });
                ev.rec("der_uint", || { let i = der::asn1::Uint::from(&a); (Raw(i.as_bytes().to_vec()), match U::<B, L>::try_from(&i) { Ok(x) => ok1(x), Err(_) => err() }) });
            }
            // ---- serde: JSON (human readable) and bincode (binary)
            ev.rec("json_b", || Raw(serde_json::to_vec(&a).unwrap()));
            ev.rec("json_rt", || match serde_json::from_slice::<U<B, L>>(&serde_json::to_vec(&a).unwrap()) { Ok(x) => ok1(x), Err(_) => err() });
            ev.rec("jsonbits_b", || Raw(serde_json::to_vec(&Bits::from(a)).unwrap()));
            ev.rec("jsonbits_rt", || match serde_json::from_slice::<Bits<B, L>>(&serde_json::to_vec(&Bits::from(a)).unwrap()) { Ok(x) => ok1(x), Err(_) => err() });
            ev.rec("bincode_b", || Raw(bincode::serialize(&a).unwrap()));
            ev.rec("bincode_rt", || match bincode::deserialize::<U<B, L>>(&bincode::serialize(&a).unwrap()) { Ok(x) => ok1(x), Err(_) => err() });
            ev.rec("bincodebits_b", || Raw(bincode::serialize(&Bits::from(a)).unwrap()));
            // ---- num-bigint
            {
                use num_bigint::{BigInt, BigUint};
                ev.rec("biguint", || Raw(BigUint::from(a).to_bytes_le()));
                ev.rec("biguint_r", || Raw(BigUint::from(&a).to_bytes_le()));
                ev.rec("bigint", || { let (s, b) = BigInt::from(a).to_bytes_le(); (s != num_bigint::Sign::Minus, Raw(b)) });
                ev.rec("biguint_rt", || match U::<B, L>::try_from(BigUint::from(a)) { Ok(x) => ok1(x), Err(_) => err() });
                ev.rec("bigint_rt", || match U::<B, L>::try_from(&BigInt::from(&a)) { Ok(x) => ok1(x), Err(_) => err() });
            }
            // ---- ark-ff BigInt (both versions)
            ev.rec("ark4", || { let x: ark_ff_04::BigInt<L> = a.into(); let y: ark_ff_04::BigInt<L> = (&a).into(); assert!(x == y); (Raw(x.0.iter().flat_map(|l| l.to_le_bytes()).collect()), Into::<U<B, L>>::into(x), Into::<U<B, L>>::into(&y)) });
            // ---- postgres: every accepted column type
            {
                use postgres_types::{FromSql, ToSql};
                for (name, ty) in PG_TYPES {
                    ev.rec(&format!("pg_{name}"), || {
                        let mut out = bytes::BytesMut::new();
                        match a.to_sql(ty, &mut out) {
                            Ok(_) => {
                                let back = match U::<B, L>::from_sql(ty, &out) { Ok(x) => ok1(x), Err(_) => err() };
                                Value::Array(vec!["ok".to_j(), Raw(out.to_vec()).to_j(), back])
                            }
                            Err(_) => err(),
                        }
                    });
                }
                ev.rec("pg_accepts", || PG_TYPES.iter().all(|(_, t)| <U<B, L> as ToSql>::accepts(t) && <U<B, L> as FromSql>::accepts(t)));
            }
        }
        "dec" => {
            let x = j_to_bytes(&scn["x"]);
            ev.rec("alloy", || { let mut s = &x[..]; match <U<B, L> as alloy_rlp::Decodable>::decode(&mut s) { Ok(v) => ok2(v, x.len() - s.len()), Err(_) => err() } });
            ev.rec("f3", || { let mut s = &x[..]; match <U<B, L> as fastrlp_03::Decodable>::decode(&mut s) { Ok(v) => ok2(v, x.len() - s.len()), Err(_) => err() } });
            ev.rec("f4", || { let mut s = &x[..]; match <U<B, L> as fastrlp_04::Decodable>::decode(&mut s) { Ok(v) => ok2(v, x.len() - s.len()), Err(_) => err() } });
            ev.rec("rlp", || match rlp::decode::<U<B, L>>(&x) { Ok(v) => ok1(v), Err(_) => err() });
            ev.rec("rlpbits", || match rlp::decode::<Bits<B, L>>(&x) { Ok(v) => ok1(v), Err(_) => err() });
            {
                use parity_scale_codec::Decode;
                use ruint::support::scale::CompactUint;
                ev.rec("scale", || { let mut s = &x[..]; match U::<B, L>::decode(&mut s) { Ok(v) => ok2(v, x.len() - s.len()), Err(_) => err() } });
                ev.rec("compact", || { let mut s = &x[..]; match CompactUint::<B, L>::decode(&mut s) { Ok(v) => ok2(v.0, x.len() - s.len()), Err(_) => err() } });
            }
            ev.rec("ssz", || match <U<B, L> as ssz::Decode>::from_ssz_bytes(&x) { Ok(v) => ok1(v), Err(_) => err() });
            ev.rec("borsh", || { let mut s = &x[..]; match <U<B, L> as borsh::BorshDeserialize>::deserialize(&mut s) { Ok(v) => ok2(v, x.len() - s.len()), Err(_) => err() } });
            ev.rec("borshbits", || { let mut s = &x[..]; match <Bits<B, L> as borsh::BorshDeserialize>::deserialize(&mut s) { Ok(v) => ok2(v, x.len() - s.len()), Err(_) => err() } });
            {
                use der::Decode;
                ev.rec("der", || match U::<B, L>::from_der(&x) { Ok(v) => ok1(v), Err(_) => err() });
                // content octets handed to the Int / Uint / Any reference types
                ev.rec("der_anyref", || match der::asn1::AnyRef::from_der(&x) { Ok(any) => match U::<B, L>::try_from(any) { Ok(v) => ok1(v), Err(_) => err() }, Err(_) => Value::Array(vec!["skip".to_j()]) });
                // the owned Any shapes (by reference and by value)
                ev.rec("der_any_r", || match der::asn1::Any::from_der(&x) { Ok(any) => match U::<B, L>::try_from(&any) { Ok(v) => ok1(v), Err(_) => err() }, Err(_) => Value::Array(vec!["skip".to_j()]) });
                ev.rec("der_any_o", || match der::asn1::Any::from_der(&x) { Ok(any) => match U::<B, L>::try_from(any) { Ok(v) => ok1(v), Err(_) => err() }, Err(_) => Value::Array(vec!["skip".to_j()]) });
                ev.rec("der_intref", || match der::asn1::IntRef::new(&x) { Ok(i) => match U::<B, L>::try_from(i) { Ok(v) => ok1(v), Err(_) => err() }, Err(_) => Value::Array(vec!["skip".to_j()]) });
                ev.rec("der_uintref", || match der::asn1::UintRef::new(&x) { Ok(i) => match U::<B, L>::try_from(i) { Ok(v) => ok1(v), Err(_) => err() }, Err(_) => Value::Array(vec!["skip".to_j()]) });
            }
            ev.rec("json", || match serde_json::from_slice::<U<B, L>>(&x) { Ok(v) => ok1(v), Err(_) => err() });
            ev.rec("jsonbits", || match serde_json::from_slice::<Bits<B, L>>(&x) { Ok(v) => ok1(v), Err(_) => err() });
            ev.rec("bincode", || match bincode::deserialize::<U<B, L>>(&x) { Ok(v) => ok1(v), Err(_) => err() });
            ev.rec("bincodebits", || match bincode::deserialize::<Bits<B, L>>(&x) { Ok(v) => ok1(v), Err(_) => err() });
            // the visitor's integer entry points, which the text formats above reach only for small numbers: a u64 / u128
            // handed over by the data format (the first 8 / 16 input bytes, little-endian), and a byte-string visitor call
            {
                use serde::de::value::{BytesDeserializer, Error as VE, U128Deserializer, U64Deserializer};
                use serde::Deserialize;
                if x.len() >= 8 {
                    let v = u64::from_le_bytes(x[..8].try_into().unwrap());
                    ev.rec("serde_u64", || match U::<B, L>::deserialize(U64Deserializer::<VE>::new(v)) { Ok(v) => ok1(v), Err(_) => err() });
                }
                if x.len() >= 16 {
                    let v = u128::from_le_bytes(x[..16].try_into().unwrap());
                    ev.rec("serde_u128", || match U::<B, L>::deserialize(U128Deserializer::<VE>::new(v)) { Ok(v) => ok1(v), Err(_) => err() });
                }
                ev.rec("serde_bytes", || match U::<B, L>::deserialize(BytesDeserializer::<VE>::new(&x)) { Ok(v) => ok1(v), Err(_) => err() });
            }
            {
                use num_bigint::{BigInt, BigUint, Sign};
                ev.rec("biguint", || match U::<B, L>::try_from(BigUint::from_bytes_le(&x)) { Ok(v) => ok1(v), Err(_) => err() });
                ev.rec("bigint", || match U::<B, L>::try_from(BigInt::from_bytes_le(Sign::Plus, &x)) { Ok(v) => ok1(v), Err(_) => err() });
                ev.rec("bigint_neg", || match U::<B, L>::try_from(&BigInt::from_bytes_le(Sign::Minus, &x)) { Ok(v) => ok1(v), Err(_) => err() });
            }
            if x.len() == 8 * L {
                // ark-ff BigInt -> Uint is an asserting constructor
                let limbs: Vec<u64> = x.chunks(8).map(|c| u64::from_le_bytes(c.try_into().unwrap())).collect();
                let mut arr = [0u64; L];
                arr.copy_from_slice(&limbs);
                ev.rec("ark4", || Into::<U<B, L>>::into(ark_ff_04::BigInt::<L>(arr)));
                ev.rec("ark4r", || Into::<U<B, L>>::into(&ark_ff_04::BigInt::<L>(arr)));
            }
            {
                use postgres_types::FromSql;
                for (name, ty) in PG_TYPES {
                    ev.rec(&format!("pg_{name}"), || match U::<B, L>::from_sql(ty, &x) { Ok(v) => ok1(v), Err(_) => err() });
                }
            }
        }
        other => panic!("codec: unknown op {other:?}"),
    }
    ev.finish()
}

/// The codec crates' own encodings of the equal primitive (u64 / u128).
fn run_ref(scn: &Obj) -> Value {
    let mut ev = Ev::new(scn);
    let v128 = j_to_u128(&scn["a"]);
    let small = v128 <= u64::MAX as u128;
    let v64 = v128 as u64;
    ev.rec("alloy_u128", || { let mut v = Vec::new(); alloy_rlp::Encodable::encode(&v128, &mut v); Raw(v) });
    ev.rec("f3_u128", || { let mut v = Vec::new(); fastrlp_03::Encodable::encode(&v128, &mut v); Raw(v) });
    ev.rec("f4_u128", || { let mut v = Vec::new(); fastrlp_04::Encodable::encode(&v128, &mut v); Raw(v) });
    ev.rec("rlp_u128", || Raw(rlp::encode(&v128).to_vec()));
    {
        use parity_scale_codec::{Compact, Encode};
        ev.rec("compact_u128", || Raw(Compact(v128).encode()));
        ev.rec("scale_bytes", || Raw(v128.to_le_bytes().to_vec().encode()));
    }
    ev.rec("ssz_u128", || Raw(ssz::Encode::as_ssz_bytes(&primitive_types::U128::from(v128))));
    ev.rec("borsh_u128", || Raw(borsh::to_vec(&v128).unwrap()));
    {
        use der::Encode;
        ev.rec("der_u128", || Raw(v128.to_der().unwrap()));
    }
    if small {
        ev.rec("alloy_u64", || { let mut v = Vec::new(); alloy_rlp::Encodable::encode(&v64, &mut v); Raw(v) });
        ev.rec("rlp_u64", || Raw(rlp::encode(&v64).to_vec()));
        ev.rec("ssz_u64", || Raw(ssz::Encode::as_ssz_bytes(&v64)));
        ev.rec("borsh_u64", || Raw(borsh::to_vec(&v64).unwrap()));
        {
            use parity_scale_codec::{Compact, Encode};
            ev.rec("compact_u64", || Raw(Compact(v64).encode()));
        }
        {
            use der::Encode;
            ev.rec("der_u64", || Raw(v64.to_der().unwrap()));
        }
    }
    ev.finish()
}

/// Integrations that exist only for specific widths: primitive-types, bytemuck, ark-ff fields.
fn run_fixed(scn: &Obj) -> Value {
    let mut ev = Ev::new(scn);
    let bits = scn["bits"].as_u64().unwrap() as usize;
    macro_rules! ptype {
        ($ours:ty, $theirs:ty, $bours:ty, $h:ty) => {{
            let a: $ours = j_to_uint(&scn["a"]);
            ev.rec("pt_limbs", || { let t: $theirs = a.into(); Raw(t.0.iter().flat_map(|l| l.to_le_bytes()).collect()) });
            ev.rec("pt_rt", || { let t: $theirs = a.into(); Into::<$ours>::into(t) });
            ev.rec("h_bytes", || { let h: $h = <$bours>::from(a).into(); Raw(h.0.to_vec()) });
            ev.rec("h_rt", || { let h: $h = <$bours>::from(a).into(); <$bours>::from(h) });
        }};
    }
    macro_rules! pod {
        ($b:literal) => {{
            let a: Uint<$b, { ruint::nlimbs($b) }> = j_to_uint(&scn["a"]);
            ev.rec("pod_bytes", || Raw(bytemuck::bytes_of(&a).to_vec()));
            ev.rec("pod_rt", || { let b = bytemuck::bytes_of(&a).to_vec(); bytemuck::pod_read_unaligned::<Uint<$b, { ruint::nlimbs($b) }>>(&b) });
            ev.rec("pod_zero", || <Uint<$b, { ruint::nlimbs($b) }> as bytemuck::Zeroable>::zeroed());
        }};
    }
    macro_rules! ark3 {
        ($b:literal, $t:ty) => {{
            let a: Uint<$b, { ruint::nlimbs($b) }> = j_to_uint(&scn["a"]);
            ev.rec("ark3", || { let x: $t = a.into(); let y: $t = (&a).into(); assert!(x == y);
                (Raw(x.0.iter().flat_map(|l| l.to_le_bytes()).collect()), Into::<Uint<$b, { ruint::nlimbs($b) }>>::into(x), Into::<Uint<$b, { ruint::nlimbs($b) }>>::into(&y)) });
        }};
    }
    use ark_ff_03::biginteger as b3;
    use ruint::aliases as al;
    match bits {
        128 => { ptype!(al::U128, primitive_types::U128, al::B128, primitive_types::H128); pod!(128); ark3!(128, b3::BigInteger128) }
        256 => {
            ptype!(al::U256, primitive_types::U256, al::B256, primitive_types::H256);
            pod!(256);
            ark3!(256, b3::BigInteger256);
            // ark-ff field elements of BN254 (4 limbs): Some iff below the field modulus
            let a: al::U256 = j_to_uint(&scn["a"]);
            ev.rec("fr4", || match ark_bn254_04::Fr::try_from(a) { Ok(f) => ok1(Into::<al::U256>::into(f)), Err(_) => err() });
            ev.rec("fr4r", || match ark_bn254_04::Fr::try_from(&a) { Ok(f) => ok1(Into::<al::U256>::into(&f)), Err(_) => err() });
            ev.rec("fq4", || match ark_bn254_04::Fq::try_from(a) { Ok(f) => ok1(Into::<al::U256>::into(f)), Err(_) => err() });
            ev.rec("fr3", || match ark_bn254_03::Fr::try_from(a) { Ok(f) => ok1(Into::<al::U256>::into(f)), Err(_) => err() });
            ev.rec("fq3", || match ark_bn254_03::Fq::try_from(&a) { Ok(f) => ok1(Into::<al::U256>::into(&f)), Err(_) => err() });
        }
        512 => { ptype!(al::U512, primitive_types::U512, al::B512, primitive_types::H512); pod!(512) }
        160 => {
            let a: al::U160 = j_to_uint(&scn["a"]);
            ev.rec("h_bytes", || { let h: primitive_types::H160 = al::B160::from(a).into(); Raw(h.0.to_vec()) });
            ev.rec("h_rt", || { let h: primitive_types::H160 = al::B160::from(a).into(); al::B160::from(h) });
        }
        64 => { pod!(64); ark3!(64, b3::BigInteger64) }
        192 => pod!(192),
        320 => { pod!(320); ark3!(320, b3::BigInteger320) }
        384 => { pod!(384); ark3!(384, b3::BigInteger384) }
        448 => { pod!(448); ark3!(448, b3::BigInteger448) }
        576 => pod!(576),
        1024 => pod!(1024),
        other => panic!("fixed: width {other}"),
    }
    ev.finish()
}
