//! C01 add/sub/neg, C02 mul, C03 div: methods, operators, assign forms, iterator folds.
use uxh::common::*;
use uxh::w;
use ruint::Uint;
use serde_json::Value;

pub fn run(scn: &Obj) -> Value {
    let bits = scn["bits"].as_u64().unwrap() as usize;
    if scn["op"] == "wmul" {
        return run_wide(scn);
    }
    w!(bits, run_w, scn)
}

fn wide<const BA: usize, const LA: usize, const BB: usize, const LB: usize, const BR: usize, const LR: usize>(
    scn: &Obj,
) -> Value {
    let mut ev = Ev::new(scn);
    let a: Uint<BA, LA> = j_to_uint(&scn["a"]);
    let b: Uint<BB, LB> = j_to_uint(&scn["b"]);
    ev.rec("wide", || a.widening_mul::<BB, LB, BR, LR>(b));
    // result types whose size is NOT BITS + BITS_RHS: documented to panic ("will runtime panic if the const generic
    // arguments are incorrect"); 701 and 1 are the sum of no compiled pair, <64, 2> has the wrong limb count
    ev.rec("ws_wide701", || a.widening_mul::<BB, LB, 701, 11>(b));
    ev.rec("ws_wide1", || a.widening_mul::<BB, LB, 1, 1>(b));
    ev.finish()
}

macro_rules! wide_pairs {
    ($scn:expr, $ba:expr, $bb:expr, [$(($a:literal, $b:literal)),* $(,)?]) => {
        match ($ba, $bb) {
            $( ($a, $b) => wide::<$a, { ruint::nlimbs($a) }, $b, { ruint::nlimbs($b) }, { $a + $b }, { ruint::nlimbs($a + $b) }>($scn), )*
            other => panic!("widening pair {other:?} is not compiled into the executor"),
        }
    };
}

fn run_wide(scn: &Obj) -> Value {
    let ba = scn["bits"].as_u64().unwrap() as usize;
    let bb = scn["bits2"].as_u64().unwrap() as usize;
    wide_pairs!(scn, ba, bb, [
        (0, 0), (0, 64), (64, 0), (1, 1), (1, 63), (63, 1), (7, 9), (32, 32), (63, 65), (64, 64), (65, 63),
        (64, 128), (128, 64), (100, 28), (127, 129), (128, 128), (129, 127), (192, 64), (64, 192),
        (250, 6), (256, 256), (255, 257), (256, 64), (64, 256), (320, 192), (384, 128), (512, 512),
        (1, 255), (13, 500), (521, 55)
    ])
}

fn run_w<const B: usize, const L: usize>(scn: &Obj) -> Value {
    type U<const B: usize, const L: usize> = Uint<B, L>;
    let mut ev = Ev::new(scn);
    let op = scn["op"].as_str().unwrap();
    match op {
        "addsub" => {
            let a: U<B, L> = j_to_uint(&scn["a"]);
            let b: U<B, L> = j_to_uint(&scn["b"]);
            ev.rec("oadd", || a.overflowing_add(b));
            ev.rec("cadd", || a.checked_add(b));
            ev.rec("sadd", || a.saturating_add(b));
            ev.rec("wadd", || a.wrapping_add(b));
            ev.rec("osub", || a.overflowing_sub(b));
            ev.rec("csub", || a.checked_sub(b));
            ev.rec("ssub", || a.saturating_sub(b));
            ev.rec("wsub", || a.wrapping_sub(b));
            ev.rec("adiff", || a.abs_diff(b));
            ev.rec("add_vv", || a + b);
            ev.rec("add_vr", || a + &b);
            ev.rec("add_rv", || &a + b);
            ev.rec("add_rr", || &a + &b);
            ev.rec("add_av", || { let mut x = a; x += b; x });
            ev.rec("add_ar", || { let mut x = a; x += &b; x });
            ev.rec("sub_vv", || a - b);
            ev.rec("sub_vr", || a - &b);
            ev.rec("sub_rv", || &a - b);
            ev.rec("sub_rr", || &a - &b);
            ev.rec("sub_av", || { let mut x = a; x -= b; x });
            ev.rec("sub_ar", || { let mut x = a; x -= &b; x });
            ev.rec("oneg", || a.overflowing_neg());
            ev.rec("cneg", || a.checked_neg());
            ev.rec("wneg", || a.wrapping_neg());
            ev.rec("neg_v", || -a);
            ev.rec("neg_r", || -&a);
        }
        "sum" => {
            let xs: Vec<U<B, L>> = scn["xs"].as_array().unwrap().iter().map(j_to_uint).collect();
            ev.rec("sum_v", || xs.iter().copied().sum::<U<B, L>>());
            ev.rec("sum_r", || xs.iter().sum::<U<B, L>>());
            ev.rec("prod_v", || xs.iter().copied().product::<U<B, L>>());
            ev.rec("prod_r", || xs.iter().product::<U<B, L>>());
        }
        "mul" => {
            let a: U<B, L> = j_to_uint(&scn["a"]);
            let b: U<B, L> = j_to_uint(&scn["b"]);
            ev.rec("omul", || a.overflowing_mul(b));
            ev.rec("cmul", || a.checked_mul(b));
            ev.rec("smul", || a.saturating_mul(b));
            ev.rec("wmul", || a.wrapping_mul(b));
            ev.rec("mul_vv", || a * b);
            ev.rec("mul_vr", || a * &b);
            ev.rec("mul_rv", || &a * b);
            ev.rec("mul_rr", || &a * &b);
            ev.rec("mul_av", || { let mut x = a; x *= b; x });
            ev.rec("mul_ar", || { let mut x = a; x *= &b; x });
            ev.rec("inv", || a.inv_ring());
        }
        "div" => {
            let a: U<B, L> = j_to_uint(&scn["a"]);
            let b: U<B, L> = j_to_uint(&scn["b"]);
            ev.rec("divrem", || a.div_rem(b));
            ev.rec("cdiv", || a.checked_div(b));
            ev.rec("crem", || a.checked_rem(b));
            ev.rec("wdiv", || a.wrapping_div(b));
            ev.rec("wrem", || a.wrapping_rem(b));
            ev.rec("ceil", || a.div_ceil(b));
            ev.rec("nmo", || a.next_multiple_of(b));
            ev.rec("cnmo", || a.checked_next_multiple_of(b));
            ev.rec("div_vv", || a / b);
            ev.rec("div_vr", || a / &b);
            ev.rec("div_rv", || &a / b);
            ev.rec("div_rr", || &a / &b);
            ev.rec("div_av", || { let mut x = a; x /= b; x });
            ev.rec("div_ar", || { let mut x = a; x /= &b; x });
            ev.rec("rem_vv", || a % b);
            ev.rec("rem_vr", || a % &b);
            ev.rec("rem_rv", || &a % b);
            ev.rec("rem_rr", || &a % &b);
            ev.rec("rem_av", || { let mut x = a; x %= b; x });
            ev.rec("rem_ar", || { let mut x = a; x %= &b; x });
        }
        other => panic!("arith: unknown op {other:?}"),
    }
    ev.finish()
}
// x
