SPECIFICATION Spec
CONSTANTS
  W = 2
  MAXLIMBS = 2
INVARIANT ContractOld
CHECK_DEADLOCK FALSE
