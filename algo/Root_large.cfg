SPECIFICATION Spec
CONSTANTS
  NMAX = 10
  GUESS = "band"
  STEPBOUND = 40
INVARIANT Contract
INVARIANT Above
INVARIANT Terminates
INVARIANT NoWrap
PROPERTY Progress
CHECK_DEADLOCK FALSE
