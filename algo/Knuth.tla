---- MODULE Knuth ----
EXTENDS Naturals, Sequences, TLC
CONSTANTS W, NDIV, NNUM
B == 2^W
BB == B*B
RECURSIVE Val(_,_)
Val(x, n) == IF n = 0 THEN 0 ELSE x[n] * B^(n-1) + Val(x, n-1)
Lz(x) == LET RECURSIVE F(_) F(k) == IF k = 0 THEN W ELSE IF x >= 2^(k-1) THEN W - k ELSE F(k-1) IN F(W)
Recip2(d) == ((B*B*B - 1) \div d) - B                       \* contract of reciprocal_2
WSub(a, b, M) == (a + M - (b % M)) % M                       \* wrapping_sub mod M
\* div_3x2_mg10 (small.rs), u128 = mod BB, u64 = mod B
Div3x2(u21, u0, d, v) ==
  LET q   == ((u21 \div B) * v + u21) % BB
      qh  == q \div B   ql == q % B
      r1  == WSub(u21 % B, (qh * (d \div B)) % B, B)
      t   == (d % B) * qh
      r0  == WSub(WSub(r1 * B + u0, t % BB, BB), d, BB)
      q1  == (qh + 1) % B
      c1  == (r0 \div B) >= ql
      q2  == IF c1 THEN WSub(q1, 1, B) ELSE q1
      r2  == IF c1 THEN (r0 + d) % BB ELSE r0
      c2  == r2 >= d
      q3  == IF c2 THEN (q2 + 1) % B ELSE q2
      r3  == IF c2 THEN WSub(r2, d, BB) ELSE r2
  IN [q |-> q3, r |-> r3, c1 |-> c1, c2 |-> c2]
\* submul_nx1 on window num[j+1..j+len] (1-based), returns <<newnum, borrow>>
SubMul(num, off, len, div, q) ==
  LET RECURSIVE F(_,_,_,_)
      F(i, nm, carry, borrow) ==
        IF i > len THEN <<nm, borrow + carry>>
        ELSE LET p == div[i]*q + carry  limb == p % B  c2 == p \div B
                 t == nm[off+i] + B*B - limb - borrow          \* sbb
                 lo == t % B  bo == IF nm[off+i] >= limb + borrow THEN 0 ELSE (IF nm[off+i] + B >= limb + borrow THEN 1 ELSE 2)
             IN F(i+1, [nm EXCEPT ![off+i] = lo], c2, bo)
  IN F(1, num, 0, 0)
AddN(num, off, len, div) ==
  LET RECURSIVE F(_,_,_)
      F(i, nm, c) == IF i > len THEN <<nm, c>> ELSE LET t == nm[off+i] + div[i] + c IN F(i+1, [nm EXCEPT ![off+i] = t % B], t \div B)
  IN F(1, num, 0)
\* div_nxm (knuth.rs), numerator num (len N), divisor div (len n); returns [q, r, ab, ov]
DivNxM(num0, N, div, n) ==
  LET m == N - n
      dtop == div[n] * B + div[n-1]
      shift == Lz(div[n])
      d == IF shift = 0 THEN dtop ELSE ((dtop * 2^shift) % BB) + (div[n-2] \div 2^(W - shift))
      v == Recip2(d)
      Get(nm, k) == IF k <= N THEN nm[k] ELSE 0
      RECURSIVE Loop(_,_,_,_,_)
      Loop(j, nm, qhigh, ab, ov) ==   \* j from m down to 0 ; 0-based j, window limbs j+1..j+n (1-based), top limb j+n+1
        IF j < 0 THEN [nm |-> nm, qhigh |-> qhigh, ab |-> ab, ov |-> ov]
        ELSE
        LET n2 == Get(nm, j+n+1)
            n21a == n2 * B + nm[j+n]
            n0a == nm[j+n-1]
            n21 == IF shift = 0 THEN n21a ELSE ((n21a * 2^shift) % BB) + (n0a \div 2^(W-shift))
            n0  == IF shift = 0 THEN n0a ELSE ((n0a * 2^shift) % B) + (nm[j+n-2] \div 2^(W-shift))
        IN IF n21 < d THEN
             LET e == Div3x2(n21, n0, d, v) IN
             IF e.q = 0 THEN Loop(j-1, IF j+n+1 <= N THEN [nm EXCEPT ![j+n+1] = 0] ELSE nm, IF j+n+1 <= N THEN qhigh ELSE 0, ab, ov)
             ELSE
             LET sm == IF shift = 0
                       THEN LET s1 == SubMul(nm, j, n-2, div, e.q)
                                rr == e.r + BB - s1[2]    \* r.overflowing_sub(borrow)
                                bo == e.r < s1[2]
                                nm2 == [s1[1] EXCEPT ![j+n-1] = (rr % BB) % B, ![j+n] = (rr % BB) \div B]
                            IN <<nm2, bo>>
                       ELSE LET s1 == SubMul(nm, j, n, div, e.q) IN <<s1[1], s1[2] # n2>>
                 nm3 == IF sm[2] THEN AddN(sm[1], j, n, div)[1] ELSE sm[1]
                 q == IF sm[2] THEN WSub(e.q, 1, B) ELSE e.q
             IN Loop(j-1, IF j+n+1 <= N THEN [nm3 EXCEPT ![j+n+1] = q] ELSE nm3, IF j+n+1 <= N THEN qhigh ELSE q, ab \/ sm[2], ov)
           ELSE
             LET s1 == SubMul(nm, j, n, div, B-1) IN
             Loop(j-1, IF j+n+1 <= N THEN [s1[1] EXCEPT ![j+n+1] = B-1] ELSE s1[1], IF j+n+1 <= N THEN qhigh ELSE B-1, ab, TRUE)
      res == Loop(m, num0, 0, FALSE, FALSE)
      rem == Val([i \in 1..n |-> res.nm[i]], n)
      quo == Val([i \in 1..(m+1) |-> IF i <= m THEN res.nm[n+i] ELSE res.qhigh], m+1)
  IN [q |-> quo, r |-> rem, ab |-> res.ab, ov |-> res.ov]
VARIABLES num, div, done, out
Init == /\ div \in [1..NDIV -> 0..(B-1)] /\ div[NDIV] # 0
        /\ \E N \in NDIV..NNUM : num \in [1..N -> 0..(B-1)]
        /\ done = FALSE /\ out = <<>>
Next == /\ ~done /\ done' = TRUE /\ out' = DivNxM(num, Len(num), div, NDIV) /\ UNCHANGED <<num, div>>
Spec == Init /\ [][Next]_<<num, div, done, out>>
Contract == done => LET nv == Val(num, Len(num))  dv == Val(div, NDIV) IN out.q = nv \div dv /\ out.r = nv % dv
NoAddBack == done => ~out.ab
NoOverflowCase == done => ~out.ov
====
