SPECIFICATION Spec
CONSTANTS
  W = 2
  NL = 4
  DL = 3
INVARIANT Contract
INVARIANT Pre
INVARIANT TopLimb
CHECK_DEADLOCK FALSE
