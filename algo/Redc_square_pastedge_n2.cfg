SPECIFICATION Spec
CONSTANTS
  W = 5
  N = 2
  THR = 1
  THR2 = 13
  MODE = "square"
INVARIANT Contract
CHECK_DEADLOCK FALSE
