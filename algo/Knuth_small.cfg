SPECIFICATION Spec
CONSTANTS
  W = 2
  NDIV = 3
  NNUM = 5
INVARIANT Contract
CHECK_DEADLOCK FALSE
