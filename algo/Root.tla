---- MODULE Root ----
(* Layer 2: the Newton iteration of Uint::root (root.rs) as a state machine, one loop iteration per transition,
   every Uint operation with the wrapping / checked / saturating meaning the code uses, for every width
   1..NMAX, every value, every degree and -- because the first guess comes from a floating-point estimate
   (approx_pow2(approx_log2(x) / degree)) that the model does not reproduce -- EVERY first guess in a band
   around the true root s:  GUESS = "band" is [s/2 .. 2s+1] without the guess 1 when s >= 2 (approx_pow2 returns
   1 only below 2^0.585 = 1.5, and round-to-nearest otherwise; the band is far wider than its error),
   GUESS = "round" is {s, s+1}, GUESS = "any" is all of 1..2^BITS-1.  "any" is REFUTED (Root_anyguess.cfg):
   a guess of 1 for a value near MAX wraps `division + deg_m1 * result`, the iterate becomes 0 and the next
   division is by zero (BITS = 3, x = 7, degree 2, guess 1); a guess above 3.5 s can stop on a wrong value.
   So the method is correct only relative to the quality of the floating-point first guess, which C13 checks
   black-box at the real widths (values around every perfect power, all-ones tops, degree up to BITS-1).

   Contract    the value returned is floor(x^(1/d)):  r^d <= x < (r+1)^d
   Above       once the iteration is decreasing the iterate never drops below the true root
   Terminates  the loop ends: `steps` is bounded (a run that exceeded the bound would be a livelock of the
               "stop when no longer decreasing" rule) and Progress: while increasing the iterate grows,
               while decreasing it shrinks
   NoWrap      `division + deg_m1 * result` never wraps (the code adds and multiplies with wrapping operators) *)
EXTENDS Naturals, TLC
CONSTANTS NMAX, GUESS, STEPBOUND
VARIABLES n, x, d, r, dec, pc, steps, wrapped
vars == <<n, x, d, r, dec, pc, steps, wrapped>>
M(k) == 2^k
RECURSIVE Pow(_, _)
Pow(b, e) == IF e = 0 THEN 1 ELSE b * Pow(b, e - 1)
\* floor root by search (the oracle)
RECURSIVE RootFrom(_, _, _)
RootFrom(v, k, c) == IF Pow(c + 1, k) > v THEN c ELSE RootFrom(v, k, c + 1)
TrueRoot(v, k) == RootFrom(v, k, 0)
Min(a, b) == IF a <= b THEN a ELSE b
Max(a, b) == IF a >= b THEN a ELSE b
Guesses(k, v, deg) ==
  LET s == TrueRoot(v, deg) IN
  IF GUESS = "any" THEN 1..(M(k) - 1)
  ELSE IF GUESS = "round" THEN s..Min(M(k) - 1, s + 1)
  ELSE (IF s = 1 THEN 1 ELSE Max(2, s \div 2))..Min(M(k) - 1, 2 * s + 1)
Init ==
  /\ n \in 1..NMAX
  /\ x \in 0..(M(n) - 1)
  /\ d \in 1..(n + 1)
  /\ dec = FALSE /\ steps = 0 /\ wrapped = FALSE
  /\ IF x = 0 THEN r = 0 /\ pc = "done"
     ELSE IF d >= n THEN r = 1 /\ pc = "done"
     ELSE IF d = 1 THEN r = x /\ pc = "done"
     ELSE r \in Guesses(n, x, d) /\ pc = "loop"
Iterate ==
  /\ pc = "loop"
  /\ LET p == Pow(r, d - 1)                                     \* checked_pow: None on overflow
         division == IF p >= M(n) THEN 0 ELSE x \div p
         sum == division + (d - 1) * r                            \* wrapping in the code
         iter == (sum % M(n)) \div d
     IN /\ wrapped' = (wrapped \/ sum >= M(n))
        /\ steps' = steps + 1
        /\ IF iter = r \/ (dec /\ iter > r) THEN pc' = "done" /\ UNCHANGED <<r, dec>>
           ELSE IF iter > r THEN r' = Min(iter, Min(2 * r, M(n) - 1)) /\ UNCHANGED <<dec, pc>>   \* saturating_shl(1)
           ELSE r' = iter /\ dec' = TRUE /\ UNCHANGED pc
  /\ UNCHANGED <<n, x, d>>
Next == Iterate
Spec == Init /\ [][Next]_vars
Contract == pc = "done" => Pow(r, d) <= x /\ Pow(r + 1, d) > x
Above == pc = "loop" /\ dec => r >= TrueRoot(x, d)
Terminates == steps <= STEPBOUND
NoWrap == ~wrapped
Progress == [][pc = "loop" /\ pc' = "loop" => (IF dec' THEN r' < r ELSE r' > r)]_vars
\* reachability witnesses
NoCappedStep == ~(pc = "loop" /\ ~dec /\ steps > 0)
NoDecreasing == ~(pc = "loop" /\ dec)
====
