---- MODULE InvRing ----
(* Layer 2: Uint::inv_ring (mul.rs): the multiplicative inverse modulo 2^BITS by Newton's iteration
   x <- x (2 - a x), seeded on the first limb with (3a) xor 2 (correct on 4 bits), doubled up to the limb
   width, then doubled over limbs (`correct_limbs *= 2` until it reaches LIMBS).  Limb width W (a power of two
   >= 4, code: 64) is a constant; every width n in 1..W*LMAX and every value is explored, one doubling per
   transition.

   Inv       after each doubling the iterate is correct on `good` low bits:  a * x = 1 (mod 2^min(good, n))
   Contract  None exactly for even values (and BITS = 0, outside the model); otherwise a * x = 1 (mod 2^n), x < 2^n
   Enough    the number of doublings the code performs suffices for every limb count (a loop that stopped one
             doubling early -- the seeded change C02b-A -- is refuted by Contract)                            *)
EXTENDS Naturals, Bitwise, TLC
CONSTANTS W, LMAX
B == 2^W
VARIABLES n, a, x, good, pc, limbsok
vars == <<n, a, x, good, pc, limbsok>>
NL == (n + W - 1) \div W
Min(p, q) == IF p <= q THEN p ELSE q
Init ==
  /\ n \in 1..(W * LMAX)
  /\ a \in 0..(2^n - 1)
  /\ limbsok = 1
  /\ IF a % 2 = 0 THEN x = 0 /\ good = 0 /\ pc = "none"
     ELSE /\ x = (((3 * (a % B)) % B) ^^ 2)             \* (n * 3) ^ 2 on the first limb, wrapping
          /\ good = 4 /\ pc = "limb0"
\* one Newton doubling inside the first limb (Wrapping<u64> arithmetic)
Limb0 ==
  /\ pc = "limb0"
  /\ IF good < W
     THEN LET a0 == a % B IN
          /\ x' = (x * (((2 + B * B) - ((a0 * x) % B)) % B)) % B
          /\ good' = 2 * good
          /\ UNCHANGED pc
     ELSE pc' = "limbs" /\ UNCHANGED <<x, good>>
  /\ UNCHANGED <<n, a, limbsok>>
\* result *= 2 - self * result  in Uint<n> (wrapping), correct_limbs *= 2
Limbs ==
  /\ pc = "limbs"
  /\ IF limbsok < NL
     THEN LET M == 2^n IN
          /\ x' = (x * (((2 + M * M) - ((a * x) % M)) % M)) % M
          /\ limbsok' = 2 * limbsok /\ good' = 2 * good
          /\ UNCHANGED pc
     ELSE pc' = "done" /\ x' = x % 2^n /\ UNCHANGED <<good, limbsok>>         \* apply_mask
  /\ UNCHANGED <<n, a>>
Next == Limb0 \/ Limbs
Spec == Init /\ [][Next]_vars
Inv == pc \in {"limb0", "limbs"} => (a * x) % 2^Min(good, n) = 1 % 2^Min(good, n)
Contract ==
  /\ (pc = "none" => a % 2 = 0)
  /\ (pc = "done" => a % 2 = 1 /\ x < 2^n /\ (a * x) % 2^n = 1 % 2^n)
Enough == pc = "done" => good >= n
====
