SPECIFICATION Spec
CONSTANTS
  W = 3
  NDIV = 3
  NNUM = 4
INVARIANT Contract
CHECK_DEADLOCK FALSE
