---- MODULE Pow ----
(* Layer 2: the square-and-multiply loops of pow.rs / modular.rs as state machines (one iteration per
   transition) over Uint<n> for every width n in 1..NMAX and every operand, with the wrapping / flagged
   arithmetic the code uses.

   MODE = "pow"     overflowing_pow: result, `overflow`, `base_overflow` bookkeeping
   MODE = "powmod"  pow_mod(base, exp, modulus) built from mul_mod (exact product, then remainder)
   MODE = "addmod"  add_mod: reduce both operands, wrapping add, "overflow or >= modulus" => wrapping subtract
                    (a single-step machine)

   LoopInv   result * base^exp is the requested power (modulo 2^n resp. the modulus) in every state, and the
             flags say exactly whether the part computed so far left the range
   Contract  final value = Base^Exp mod 2^n with overflow <=> Base^Exp >= 2^n;  pow_mod = Base^Exp mod m
             (0 for m <= 1);  add_mod = (a + b) mod m (0 for m = 0)                                          *)
EXTENDS Naturals, TLC
CONSTANTS NMAX, MODE
VARIABLES n, B0, E0, Mo, base, exp, result, ovf, bovf, pc, k      \* k: ghost, iterations done
vars == <<n, B0, E0, Mo, base, exp, result, ovf, bovf, pc, k>>
M(w) == 2^w
Min(a, b) == IF a <= b THEN a ELSE b
RECURSIVE PowMod(_, _, _)            \* b^e mod m (m >= 1), TLC integers are 32-bit: reduce at every step
PowMod(b, e, m) == IF e = 0 THEN 1 % m ELSE (b * PowMod(b, e - 1, m)) % m
RECURSIVE PowSat(_, _, _)            \* min(b^e, cap)
PowSat(b, e, cap) == IF e = 0 THEN 1 ELSE Min(b * PowSat(b, e - 1, cap), cap)
P2(j) == 2^j
Init ==
  /\ n \in 1..NMAX
  /\ B0 \in 0..(M(n) - 1) /\ E0 \in 0..(M(n) - 1)
  /\ Mo \in (IF MODE = "pow" THEN {0} ELSE 0..(M(n) - 1))
  /\ base = B0 /\ exp = E0 /\ ovf = FALSE /\ bovf = FALSE /\ k = 0
  /\ IF MODE = "powmod" /\ Mo <= 1 THEN result = 0 /\ pc = "done"
     ELSE IF MODE = "addmod" THEN result = 0 /\ pc = "add"
     ELSE result = 1 % M(n) /\ pc = "loop"
MulMod(a, b) == IF Mo = 0 THEN 0 ELSE (a * b) % Mo
Step ==
  /\ pc = "loop" /\ exp # 0
  /\ IF MODE = "pow"
     THEN /\ result' = (IF exp % 2 = 1 THEN (result * base) % M(n) ELSE result)
          /\ ovf' = (IF exp % 2 = 1 THEN ovf \/ result * base >= M(n) \/ bovf ELSE ovf)
          /\ base' = (base * base) % M(n)
          /\ bovf' = (bovf \/ base * base >= M(n))
     ELSE /\ result' = (IF exp % 2 = 1 THEN MulMod(result, base) ELSE result)
          /\ base' = MulMod(base, base)
          /\ UNCHANGED <<ovf, bovf>>
  /\ exp' = exp \div 2 /\ k' = k + 1
  /\ UNCHANGED <<n, B0, E0, Mo, pc>>
Exit == pc = "loop" /\ exp = 0 /\ pc' = "done" /\ UNCHANGED <<n, B0, E0, Mo, base, exp, result, ovf, bovf, k>>
ReduceMod(a) == IF Mo = 0 THEN 0 ELSE IF a >= Mo THEN a % Mo ELSE a
AddMod ==
  /\ pc = "add" /\ pc' = "done"
  /\ LET l == ReduceMod(B0)  r == ReduceMod(E0)
         sum == (l + r) % M(n)
         o == l + r >= M(n)
     IN result' = (IF o \/ sum >= Mo THEN (sum + M(n) - Mo) % M(n) ELSE sum)
  /\ UNCHANGED <<n, B0, E0, Mo, base, exp, ovf, bovf, k>>
Next == Step \/ Exit \/ AddMod
Spec == Init /\ [][Next]_vars
\* after k iterations exp = E0 div 2^k and the part done is Base^low with low = E0 mod 2^k
LoopInv ==
  pc = "loop" =>
    LET low == E0 % P2(k) IN
    /\ exp = E0 \div P2(k)
    /\ IF MODE = "pow"
       THEN /\ result = PowMod(B0, low, M(n))
            /\ base = PowMod(B0, P2(k), M(n))
            /\ (bovf <=> PowSat(B0, P2(k), M(n)) >= M(n))
            /\ (ovf <=> PowSat(B0, low, M(n)) >= M(n))
       ELSE /\ result = PowMod(B0, low, Mo)
            /\ base % Mo = PowMod(B0, P2(k), Mo)
Contract ==
  pc = "done" =>
    CASE MODE = "pow"    -> result = PowMod(B0, E0, M(n)) /\ (ovf <=> PowSat(B0, E0, M(n)) >= M(n))
      [] MODE = "powmod" -> result = (IF Mo <= 1 THEN 0 ELSE PowMod(B0, E0, Mo))
      [] MODE = "addmod" -> result = (IF Mo = 0 THEN 0 ELSE (B0 + E0) % Mo)
Progress == [][pc = "loop" /\ pc' = "loop" => exp' < exp]_vars
====
