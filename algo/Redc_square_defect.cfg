SPECIFICATION Spec
CONSTANTS
  W = 3
  N = 2
  THR = 3
  THR2 = 8
  MODE = "square"
INVARIANT Contract
CHECK_DEADLOCK FALSE
