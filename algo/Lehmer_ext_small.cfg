SPECIFICATION Spec
CONSTANTS
  H = 2
  TMAX = 0
  NB = 7
  MODE = "ext"
INVARIANT Contract
INVARIANT Packed
INVARIANT LoopInv
PROPERTY Progress
CHECK_DEADLOCK FALSE
