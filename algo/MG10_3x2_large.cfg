SPECIFICATION Spec
CONSTANTS
  W = 4
  MODE = "3x2"
INVARIANT Contract
CHECK_DEADLOCK FALSE
