SPECIFICATION Spec
CONSTANTS
  P = 3
  W = 5
  NMAX = 12
  MODE = "to"
  NOGUARD = FALSE
  ALWAYSADD = FALSE
INVARIANT Contract
INVARIANT Monotone
CHECK_DEADLOCK FALSE
