SPECIFICATION Spec
CONSTANTS
  NMAX = 7
  MODE = "pow"
INVARIANT Contract
INVARIANT LoopInv
PROPERTY Progress
CHECK_DEADLOCK FALSE
