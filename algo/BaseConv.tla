---- MODULE BaseConv ----
(* Layer 2: base_convert.rs with the limb width W as a constant: the digit spigot behind to_base_le (Knuth's
   algorithm S run limb by limb, most significant limb first, one call of `next` per transition) and the two
   digit accumulators from_base_le (running power, early exit once the power leaves the range, "following
   digits must be zero") and from_base_be (Horner with a double-word carry), one digit per transition, for
   every width n <= W*L (with its own limb count ceil(n/W)), every base in 2..2^W-1 and every digit string up to DMAX digits (digits range over
   0..base so that one invalid digit value is included).

   MODE = "spigot"   Contract: the digits yielded are exactly the base-b digits of the value, least
                     significant first, none after the value is exhausted (no trailing zero digit)
   MODE = "le"/"be"  Contract: Ok(v) iff every digit is < base and the positional value v is < 2^n; otherwise
                     the error of the FIRST failing digit in processing order: InvalidDigit at an invalid
                     digit, Overflow where the running value leaves the range
   Inv               the accumulator limbs are canonical (below 2^n) whenever the loop continues        *)
EXTENDS Naturals, Sequences, TLC
CONSTANTS W, L, DMAX, MODE
B == 2^W
VARIABLES n, base, limbs, ds, i, out, pc, power, pdead, V0
vars == <<n, base, limbs, ds, i, out, pc, power, pdead, V0>>
NL == (n + W - 1) \div W            \* limbs of Uint<n>
RECURSIVE ValOf(_)
ValOf(s) == IF s = <<>> THEN 0 ELSE s[1] + B * ValOf(Tail(s))
RECURSIVE ToLimbs(_, _)
ToLimbs(v, k) == IF k = 0 THEN <<>> ELSE <<v % B>> \o ToLimbs(v \div B, k - 1)
Mask(k) == 2^k - 1
RECURSIVE SeqsUpTo(_, _)
SeqsUpTo(S, k) == IF k = 0 THEN {<<>>} ELSE LET r == SeqsUpTo(S, k - 1) IN r \cup {Append(s, d) : s \in {t \in r : Len(t) = k - 1}, d \in S}
RECURSIVE HornerLE(_, _)
HornerLE(s, b) == IF s = <<>> THEN 0 ELSE s[1] + b * HornerLE(Tail(s), b)
RECURSIVE Rev(_)
Rev(s) == IF s = <<>> THEN <<>> ELSE Append(Rev(Tail(s)), s[1])
Init ==
  /\ n \in 1..(W * L)
  /\ base \in 2..(B - 1)
  /\ i = 1 /\ out = <<>> /\ power = 1 /\ pdead = FALSE
  /\ IF MODE = "spigot"
     THEN /\ V0 \in 0..Mask(n) /\ limbs = ToLimbs(V0, NL) /\ ds = <<>> /\ pc = "next"
     ELSE /\ V0 = 0 /\ limbs = ToLimbs(0, NL) /\ ds \in SeqsUpTo(0..base, DMAX) /\ pc = "digit"
\* one call of SpigotLittle::next: long division of the limbs by base, most significant limb first
RECURSIVE DivLimbs(_, _, _)
DivLimbs(ls, k, rem) ==     \* returns <<new limbs (k..1 processed), remainder>>
  IF k = 0 THEN <<ls, rem>>
  ELSE LET r == rem * B + ls[k] IN DivLimbs([ls EXCEPT ![k] = (r \div base) % B], k - 1, r % base)
SpigotNext ==
  /\ pc = "next"
  /\ LET zero == \A k \in 1..NL : limbs[k] = 0
         r == DivLimbs(limbs, NL, 0)
     IN IF zero THEN pc' = "done" /\ UNCHANGED <<limbs, out>>
        ELSE limbs' = r[1] /\ out' = Append(out, r[2]) /\ UNCHANGED pc
  /\ UNCHANGED <<n, base, ds, i, power, pdead, V0>>
\* from_base_le: result += power * digit (addmul_nx1), then power *= base (mul_nx1); limbs are a value mod B^NL
LeDigit ==
  /\ pc = "digit" /\ MODE = "le" /\ i <= Len(ds)
  /\ LET d == ds[i]  res == ValOf(limbs) IN
     IF d >= base THEN out' = <<"baddigit", d>> /\ pc' = "done" /\ UNCHANGED <<limbs, power, pdead, i>>
     ELSE IF pdead THEN (IF d # 0 THEN out' = <<"overflow">> /\ pc' = "done" /\ UNCHANGED <<limbs, power, pdead, i>>
                         ELSE i' = i + 1 /\ UNCHANGED <<limbs, power, pdead, out, pc>>)
     ELSE LET sum == res + power * d
              o1 == sum >= B^NL \/ (sum % B^NL) \div B^(NL - 1) > Mask(n - W * (NL - 1))
              np == power * base
              o2 == np >= B^NL \/ (np % B^NL) \div B^(NL - 1) > Mask(n - W * (NL - 1))
          IN IF o1 THEN out' = <<"overflow">> /\ pc' = "done" /\ UNCHANGED <<limbs, power, pdead, i>>
             ELSE /\ limbs' = ToLimbs(sum, NL) /\ power' = np % B^NL /\ pdead' = o2 /\ i' = i + 1
                  /\ UNCHANGED <<out, pc>>
  /\ UNCHANGED <<n, base, ds, V0>>
\* from_base_be: limb loop with a double-word carry seeded with the digit
RECURSIVE MulAddLimbs(_, _, _)
MulAddLimbs(ls, k, carry) ==      \* k = next limb index; returns <<limbs, carry>>
  IF k > NL THEN <<ls, carry>>
  ELSE LET c == carry + ls[k] * base IN MulAddLimbs([ls EXCEPT ![k] = c % B], k + 1, c \div B)
BeDigit ==
  /\ pc = "digit" /\ MODE = "be" /\ i <= Len(ds)
  /\ LET d == ds[i] IN
     IF d >= base THEN out' = <<"baddigit", d>> /\ pc' = "done" /\ UNCHANGED <<limbs, i>>
     ELSE LET r == MulAddLimbs(limbs, 1, d) IN
          IF r[2] > 0 \/ r[1][NL] > Mask(n - W * (NL - 1)) THEN out' = <<"overflow">> /\ pc' = "done" /\ UNCHANGED <<limbs, i>>
          ELSE limbs' = r[1] /\ i' = i + 1 /\ UNCHANGED <<out, pc>>
  /\ UNCHANGED <<n, base, ds, power, pdead, V0>>
Finish ==
  /\ pc = "digit" /\ i > Len(ds) /\ pc' = "done" /\ out' = <<"ok", ValOf(limbs)>>
  /\ UNCHANGED <<n, base, limbs, ds, i, power, pdead, V0>>
Next == SpigotNext \/ LeDigit \/ BeDigit \/ Finish
Spec == Init /\ [][Next]_vars
\* ---- contracts
RECURSIVE DigitsLE(_, _)
DigitsLE(v, b) == IF v = 0 THEN <<>> ELSE <<v % b>> \o DigitsLE(v \div b, b)
\* expected outcome of the accumulators: scan in processing order
RECURSIVE ScanLE(_, _, _, _)
ScanLE(s, k, acc, pw) ==      \* pw = base^(k-1), exact
  IF k > Len(s) THEN <<"ok", acc>>
  ELSE IF s[k] >= base THEN <<"baddigit", s[k]>>
  ELSE IF acc + pw * s[k] > Mask(n) THEN <<"overflow">>
  ELSE ScanLE(s, k + 1, acc + pw * s[k], IF pw > Mask(n) THEN pw ELSE pw * base)
RECURSIVE ScanBE(_, _, _)
ScanBE(s, k, acc) ==
  IF k > Len(s) THEN <<"ok", acc>>
  ELSE IF s[k] >= base THEN <<"baddigit", s[k]>>
  ELSE IF acc * base + s[k] > Mask(n) THEN <<"overflow">>
  ELSE ScanBE(s, k + 1, acc * base + s[k])
Contract ==
  pc = "done" =>
    CASE MODE = "spigot" -> out = DigitsLE(V0, base)
      [] MODE = "le"     -> out = ScanLE(ds, 1, 0, 1)
      [] MODE = "be"     -> out = ScanBE(ds, 1, 0)
Inv == pc = "digit" => ValOf(limbs) <= Mask(n)
SpigotInv == MODE = "spigot" /\ pc = "next" => ValOf(limbs) * base^Len(out) + HornerLE(out, base) = V0
====
