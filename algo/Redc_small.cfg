SPECIFICATION Spec
CONSTANTS
  W = 3
  N = 2
  THR = 3
INVARIANT Contract
CHECK_DEADLOCK FALSE
