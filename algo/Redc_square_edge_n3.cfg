SPECIFICATION Spec
CONSTANTS
  W = 3
  N = 3
  THR = 1
  THR2 = 3
  MODE = "square"
INVARIANT Contract
CHECK_DEADLOCK FALSE
