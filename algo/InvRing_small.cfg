SPECIFICATION Spec
CONSTANTS
  W = 4
  LMAX = 3
INVARIANT Inv
INVARIANT Contract
INVARIANT Enough
CHECK_DEADLOCK FALSE
