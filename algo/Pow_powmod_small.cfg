SPECIFICATION Spec
CONSTANTS
  NMAX = 4
  MODE = "powmod"
INVARIANT Contract
INVARIANT LoopInv
PROPERTY Progress
CHECK_DEADLOCK FALSE
