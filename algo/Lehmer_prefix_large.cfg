SPECIFICATION Spec
CONSTANTS
  H = 4
  TMAX = 4
  NB = 1
  MODE = "prefix"
INVARIANT Contract
INVARIANT Exact
INVARIANT Packed
CHECK_DEADLOCK FALSE
