SPECIFICATION Spec
CONSTANTS
  W = 4
  N = 2
  THR = 7
INVARIANT Contract
CHECK_DEADLOCK FALSE
