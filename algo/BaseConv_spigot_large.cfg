SPECIFICATION Spec
CONSTANTS
  W = 3
  L = 2
  DMAX = 5
  MODE = "spigot"
INVARIANT Contract
INVARIANT Inv
INVARIANT SpigotInv
CHECK_DEADLOCK FALSE
