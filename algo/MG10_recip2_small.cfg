SPECIFICATION Spec
CONSTANTS
  W = 5
  MODE = "recip2"
INVARIANT Contract
CHECK_DEADLOCK FALSE
