SPECIFICATION Spec
CONSTANTS
  W = 5
  MODE = "2x1"
INVARIANT Contract
CHECK_DEADLOCK FALSE
