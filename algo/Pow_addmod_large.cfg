SPECIFICATION Spec
CONSTANTS
  NMAX = 7
  MODE = "addmod"
INVARIANT Contract
INVARIANT LoopInv
PROPERTY Progress
CHECK_DEADLOCK FALSE
