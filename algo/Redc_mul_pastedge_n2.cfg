SPECIFICATION Spec
CONSTANTS
  W = 3
  N = 2
  THR = 6
  THR2 = 1
  MODE = "mul"
INVARIANT Contract
CHECK_DEADLOCK FALSE
