---- MODULE Log ----
(* Layer 2: Uint::log (log.rs) as a state machine: shortcuts (base 2, self < base), a first estimate that the code
   takes from floating point (approx_log2(self) / approx_log2(base), rounded to nearest by TryFrom<f64>) and that the
   model chooses nondeterministically from a band around the true logarithm t, then the decrement loop and the
   increment loop, one iteration per transition, with checked_pow returning None on overflow.

   EST = "near"  estimate in {t-2 .. t+1} (rounding to nearest can be at most one above; below is repaired by the
                 increment loop however far)       -- Contract holds
   EST = "any"   estimate in 0 .. n                -- REFUTED (Log_anyest.cfg): in the overflow arm of the first loop
                 the code decrements ONCE and leaves the loop without re-testing, so an estimate two or more above t
                 whose power overflows is returned one too high or more; the code's comment "at most one of these
                 should happen" is an assumption about the float estimate, which C13 checks black-box.

   Contract   base^r <= x < base^(r+1)
   Progress   both loops terminate: the first strictly decreases r, the second strictly increases it          *)
EXTENDS Naturals, TLC
CONSTANTS NMAX, EST
VARIABLES n, x, b, r, pc
vars == <<n, x, b, r, pc>>
M == 2^n
Min(p, q) == IF p <= q THEN p ELSE q
RECURSIVE PowSat(_, _, _)
PowSat(base, e, cap) == IF e = 0 THEN 1 ELSE Min(base * PowSat(base, e - 1, cap), cap)      \* min(base^e, cap)
CheckedPow(base, e) == LET p == PowSat(base, e, M) IN IF p >= M THEN <<FALSE, 0>> ELSE <<TRUE, p>>
RECURSIVE TrueLogFrom(_, _, _)
TrueLogFrom(v, base, k) == IF PowSat(base, k + 1, v + 1) > v THEN k ELSE TrueLogFrom(v, base, k + 1)
TrueLog(v, base) == TrueLogFrom(v, base, 0)
BitLen(v) == TrueLog(v, 2) + 1
Init ==
  /\ n \in 2..NMAX
  /\ x \in 1..(2^n - 1) /\ b \in 2..(2^n - 1)
  /\ IF b = 2 THEN r = BitLen(x) - 1 /\ pc = "done"
     ELSE IF x < b THEN r = 0 /\ pc = "done"
     ELSE LET t == TrueLog(x, b) IN
          /\ r \in (IF EST = "any" THEN 0..n ELSE (IF t >= 2 THEN t - 2 ELSE 0)..(t + 1))
          /\ pc = "dec"
Dec ==
  /\ pc = "dec"
  /\ LET p == CheckedPow(b, r) IN
     IF p[1] THEN (IF p[2] > x THEN r' = r - 1 /\ UNCHANGED pc        \* assert !result.is_zero(): r >= 1 since b^0 = 1 <= x
                   ELSE pc' = "inc" /\ UNCHANGED r)
     ELSE r' = r - 1 /\ pc' = "inc"                                   \* overflow arm: decrement once, then break
  /\ UNCHANGED <<n, x, b>>
Inc ==
  /\ pc = "inc"
  /\ IF r + 1 < M                                                     \* result.checked_add(ONE)
     THEN LET p == CheckedPow(b, r + 1) IN
          IF p[1] /\ p[2] <= x THEN r' = r + 1 /\ UNCHANGED pc ELSE pc' = "done" /\ UNCHANGED r
     ELSE pc' = "done" /\ UNCHANGED r
  /\ UNCHANGED <<n, x, b>>
Next == Dec \/ Inc
Spec == Init /\ [][Next]_vars
Contract == pc = "done" => PowSat(b, r, x + 1) <= x /\ PowSat(b, r + 1, x + 1) > x
Progress == [][(pc = "dec" /\ pc' = "dec" => r' < r) /\ (pc = "inc" /\ pc' = "inc" => r' > r)]_vars
NoDecrement == ~(pc = "dec" /\ CheckedPow(b, r)[1] /\ CheckedPow(b, r)[2] > x)
NoOverflowArm == ~(pc = "dec" /\ ~CheckedPow(b, r)[1])
====
