SPECIFICATION Spec
CONSTANTS
  W = 2
  MAXLEN = 3
INVARIANT Contract
CHECK_DEADLOCK FALSE
