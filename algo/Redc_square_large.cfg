SPECIFICATION Spec
CONSTANTS
  W = 4
  N = 3
  THR = 7
  THR2 = 3
  MODE = "square"
INVARIANT Contract
CHECK_DEADLOCK FALSE
