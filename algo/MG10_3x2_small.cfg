SPECIFICATION Spec
CONSTANTS
  W = 3
  MODE = "3x2"
INVARIANT Contract
CHECK_DEADLOCK FALSE
