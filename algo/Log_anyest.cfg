SPECIFICATION Spec
CONSTANTS
  NMAX = 7
  EST = "any"
INVARIANT Contract
PROPERTY Progress
CHECK_DEADLOCK FALSE
