---- MODULE Float ----
(* Layer 2: the two floating-point conversions of from.rs on a toy binary format with P significant bits (code: 53)
   and limbs of W bits (code: 64), non-negative finite values only (sign, NaN, infinity and the range check are
   classification, covered by the Layer-1 contract of C18).

   MODE = "to"    Uint -> float:  most_significant_bits (value itself if it fits one limb, else the W leading bits
                  taken from the two top limbs, truncated, with the exponent), then `bits as f64` = round to nearest
                  even to P bits, then times 2^exponent (exact).
                  Contract: the result is one of the two P-bit neighbours of the value, exact when representable;
                  Monotone: F(v) <= F(v+1)   (truncate-then-round is a double rounding: not always the NEAREST
                  float, which the property does not demand -- NotNearest gives the first witness)
   MODE = "from"  float -> Uint:  `value < 0.5 => 0`, then `value + 0.5` IN FLOATING POINT (round to nearest even)
                  only below 2^(P-1) (code: 2^52), then truncation of the mantissa.
                  Contract: the result is floor(f + 1/2) computed exactly.
                  NOGUARD = TRUE removes the `< 0.5` shortcut: refuted (largest float below 1/2 rounds up to 1);
                  ALWAYSADD = TRUE adds 0.5 at every magnitude: refuted (odd integers in [2^(P-1), 2^P) go to even
                  -- the defect repaired in /repo, "fix: f64 rounding of odd integers")                          *)
EXTENDS Integers, TLC
CONSTANTS P, W, NMAX, MODE, NOGUARD, ALWAYSADD
VARIABLES n, v, m, e, done, out
vars == <<n, v, m, e, done, out>>
RECURSIVE BitLen(_)
BitLen(x) == IF x = 0 THEN 0 ELSE 1 + BitLen(x \div 2)
\* round the non-negative integer x to P significant bits, to nearest, ties to even
RNE(x) ==
  LET bl == BitLen(x) IN
  IF bl <= P THEN x
  ELSE LET s == bl - P  q == x \div 2^s  r == x % 2^s  half == 2^(s - 1)
           up == r > half \/ (r = half /\ q % 2 = 1)
       IN (IF up THEN q + 1 ELSE q) * 2^s
RD(x) == LET bl == BitLen(x) IN IF bl <= P THEN x ELSE (x \div 2^(bl - P)) * 2^(bl - P)
RU(x) == LET bl == BitLen(x) IN IF bl <= P \/ x % 2^(bl - P) = 0 THEN x ELSE RD(x) + 2^(bl - P)
\* ---- Uint -> float
Msb(x) ==       \* <<bits, exponent>> as most_significant_bits computes them with W-bit limbs
  IF x < 2^W THEN <<x, 0>>
  ELSE LET bl == BitLen(x)
           top == (bl - 1) \div W                    \* index of the first set limb (0-based), >= 1
           hi == x \div 2^(W * top)
           lo == (x \div 2^(W * (top - 1))) % 2^W
           lz == W - BitLen(hi)
           bits == IF lz > 0 THEN ((hi * 2^lz) % 2^W) + (lo \div 2^(W - lz)) ELSE hi
       IN <<bits, W * top - lz>>
ToFloat(x) == LET mb == Msb(x) IN RNE(mb[1]) * 2^mb[2]
\* ---- float -> Uint: the float is m * 2^e / 2^S with S = P + 2 fractional bits of headroom (value = m * 2^(e - S))
S == P + 2
\* fl(x + 1/2) for x = num / 2^S: exact sum, then RNE to P bits (RNE works on the scaled integer)
FromFloat(num) ==
  IF ~NOGUARD /\ 2 * num < 2^S THEN 0
  ELSE LET y == IF ALWAYSADD \/ num < 2^(P - 1) * 2^S THEN RNE(num + 2^(S - 1)) ELSE num
       IN y \div 2^S
Init ==
  /\ n \in 1..NMAX /\ done = FALSE /\ out = 0
  /\ IF MODE = "to" THEN v \in 0..(2^n - 1) /\ m = 0 /\ e = 0
     ELSE /\ v = 0
          /\ m \in 2^(P - 1)..(2^P - 1)             \* normalised mantissa
          /\ e \in 0..(n + S)                       \* value = m * 2^e / 2^(S + P - 1): from 2^-S.. up to about 2^n
Num == m * 2^e                                      \* scaled by 2^(S + P - 1)
Eval ==
  /\ ~done /\ done' = TRUE
  /\ out' = IF MODE = "to" THEN ToFloat(v)
            ELSE \* rescale to S fractional bits exactly when possible (e >= P - 1), else the value is below 2^-? : tiny
                 IF e >= P - 1 THEN FromFloat(m * 2^(e - (P - 1))) ELSE FromFloat(0)
  /\ UNCHANGED <<n, v, m, e>>
Spec == Init /\ [][Eval]_vars
Contract ==
  done =>
    IF MODE = "to" THEN (out = RD(v) \/ out = RU(v)) /\ (RD(v) = v => out = v)
    ELSE e >= P - 1 => LET num == m * 2^(e - (P - 1)) IN out = (num + 2^(S - 1)) \div 2^S         \* floor(f + 1/2)
Monotone == MODE = "to" => ToFloat(v) <= ToFloat(v + 1)
NotNearest == ~(MODE = "to" /\ done /\ out # RNE(v))
====
