SPECIFICATION Spec
CONSTANTS
  W = 7
  MODE = "recip2"
INVARIANT Contract
CHECK_DEADLOCK FALSE
