---- MODULE MG10 ----
(* Layer 2: the Moller-Granlund division primitives of small.rs / reciprocal.rs with the limb width W as a
   constant: div_2x1_mg10 (algorithm 4), div_3x2_mg10 (algorithm 5) and reciprocal_2 built from reciprocal
   (the table-seeded reciprocal itself is abstracted by its contract floor((B^2 - 1)/d) - B; it is checked
   black-box by C14 on every table row).  Every normalised divisor and every admissible numerator of the
   instance is explored.  Contract: the Euclidean quotient and remainder; at most one decrement and one
   increment are needed (that is how the code is written: there is no loop). *)
EXTENDS Naturals, TLC
CONSTANTS W, MODE        \* MODE = "2x1" | "3x2" | "recip2"
B == 2^W
BB == B * B
WSub(a, b, M) == (a + M - (b % M)) % M
Recip(d) == ((BB - 1) \div d) - B                 \* contract of reciprocal(d), d in [B/2, B)
Recip2Contract(d) == ((B * BB - 1) \div d) - B     \* contract of reciprocal_2(d), d in [BB/2, BB)
\* reciprocal_2_mg10 from reciprocal (reciprocal.rs), u64 = mod B
Recip2(d) ==
  LET d1 == d \div B  d0 == d % B
      v0 == Recip(d1)
      p0 == (((d1 * v0) % B) + d0) % B
      a1 == p0 < d0                                  \* adjustment 1
      v1 == IF a1 THEN WSub(v0, 1, B) ELSE v0
      a2 == a1 /\ p0 >= d1                           \* adjustment 2
      v2 == IF a2 THEN WSub(v1, 1, B) ELSE v1
      p1 == IF a1 THEN WSub(IF a2 THEN WSub(p0, d1, B) ELSE p0, d1, B) ELSE p0
      t == v2 * d0
      t1 == t \div B  t0 == t % B
      p2 == (p1 + t1) % B
      a3 == p2 < t1                                  \* adjustment 3
      v3 == IF a3 THEN WSub(v2, 1, B) ELSE v2
      a4 == a3 /\ (p2 * B + t0 >= d)                 \* adjustment 4
      v4 == IF a4 THEN WSub(v3, 1, B) ELSE v3
  IN [v |-> v4, adj |-> <<a1, a2, a3, a4>>]
\* div_2x1_mg10(u, d, v): u < d*B, d >= B/2
Div2x1(u, d, v) ==
  LET q == (u + (u \div B) * v) % BB
      q0 == q % B
      q1 == ((q \div B) + 1) % B
      r == WSub(u % B, (q1 * d) % B, B)
      c1 == r > q0
      q1b == IF c1 THEN WSub(q1, 1, B) ELSE q1
      rb == IF c1 THEN (r + d) % B ELSE r
      c2 == rb >= d
  IN [q |-> IF c2 THEN (q1b + 1) % B ELSE q1b, r |-> IF c2 THEN WSub(rb, d, B) ELSE rb, dec |-> c1, inc |-> c2]
\* div_3x2_mg10(u21, u0, d, v): u21 < d, d >= BB/2
Div3x2(u21, u0, d, v) ==
  LET q == ((u21 \div B) * v + u21) % BB
      qh == q \div B   ql == q % B
      r1 == WSub(u21 % B, (qh * (d \div B)) % B, B)
      t == (d % B) * qh
      r0 == WSub(WSub(r1 * B + u0, t % BB, BB), d, BB)
      q1 == (qh + 1) % B
      c1 == (r0 \div B) >= ql
      q2 == IF c1 THEN WSub(q1, 1, B) ELSE q1
      r2 == IF c1 THEN (r0 + d) % BB ELSE r0
      c2 == r2 >= d
  IN [q |-> IF c2 THEN (q2 + 1) % B ELSE q2, r |-> IF c2 THEN WSub(r2, d, BB) ELSE r2, dec |-> c1, inc |-> c2]
VARIABLES d, u, done, out
DSet == IF MODE = "2x1" THEN (B \div 2)..(B - 1) ELSE (BB \div 2)..(BB - 1)
USet(dd) == IF MODE = "recip2" THEN {0} ELSE 0..(dd * B - 1)
Init ==
  /\ done = FALSE
  /\ out = <<>>
  /\ d \in DSet
  /\ u \in USet(d)
Result == IF MODE = "2x1" THEN Div2x1(u, d, Recip(d))
          ELSE IF MODE = "3x2" THEN Div3x2(u \div B, u % B, d, Recip2Contract(d))
          ELSE Recip2(d)
Next ==
  /\ ~done
  /\ done' = TRUE
  /\ out' = Result
  /\ UNCHANGED <<d, u>>
Spec == Init /\ [][Next]_<<d, u, done, out>>
Contract ==
  done => IF MODE = "recip2" THEN out.v = Recip2Contract(d)
          ELSE out.q = u \div d /\ out.r = u % d
\* reachability witnesses (used as invariants to be refuted)
NoIncrement == done /\ MODE # "recip2" => ~out.inc
NoAdjust4 == done /\ MODE = "recip2" => ~out.adj[4]
====
