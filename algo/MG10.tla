---- MODULE MG10 ----
(* Layer 2: the Moller-Granlund division primitives of small.rs / reciprocal.rs with the limb width W as a
   constant: div_2x1_mg10 (algorithm 4), div_3x2_mg10 (algorithm 5) and reciprocal_2 built from reciprocal
   (the table-seeded reciprocal itself is abstracted by its contract floor((B^2 - 1)/d) - B; it is checked
   black-box by C14 on every table row).  Every normalised divisor and every admissible numerator of the
   instance is explored.  Contract: the Euclidean quotient and remainder; at most one decrement and one
   increment are needed (that is how the code is written: there is no loop). *)
EXTENDS MG10Ops, TLC
CONSTANT MODE             \* MODE = "2x1" | "3x2" | "recip2"
VARIABLES d, u, done, out
DSet == IF MODE = "2x1" THEN (B \div 2)..(B - 1) ELSE (BB \div 2)..(BB - 1)
USet(dd) == IF MODE = "recip2" THEN {0} ELSE 0..(dd * B - 1)
Init ==
  /\ done = FALSE
  /\ out = <<>>
  /\ d \in DSet
  /\ u \in USet(d)
Result == IF MODE = "2x1" THEN Div2x1(u, d, Recip(d))
          ELSE IF MODE = "3x2" THEN Div3x2(u \div B, u % B, d, Recip2Contract(d))
          ELSE Recip2(d)
Next ==
  /\ ~done
  /\ done' = TRUE
  /\ out' = Result
  /\ UNCHANGED <<d, u>>
Spec == Init /\ [][Next]_<<d, u, done, out>>
Contract ==
  done => IF MODE = "recip2" THEN out.v = Recip2Contract(d)
          ELSE out.q = u \div d /\ out.r = u % d
\* reachability witnesses (used as invariants to be refuted)
NoIncrement == done /\ MODE # "recip2" => ~out.inc
NoAdjust4 == done /\ MODE = "recip2" => ~out.adj[4]
====
