SPECIFICATION Spec
CONSTANTS
  W = 8
  LMAX = 2
INVARIANT Inv
INVARIANT Contract
INVARIANT Enough
CHECK_DEADLOCK FALSE
