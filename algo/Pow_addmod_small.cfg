SPECIFICATION Spec
CONSTANTS
  NMAX = 6
  MODE = "addmod"
INVARIANT Contract
INVARIANT LoopInv
PROPERTY Progress
CHECK_DEADLOCK FALSE
