SPECIFICATION Spec
CONSTANTS
  NMAX = 14
  K = 3
INVARIANT Contract
INVARIANT Fits
INVARIANT Chunks
CHECK_DEADLOCK FALSE
