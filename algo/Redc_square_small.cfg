SPECIFICATION Spec
CONSTANTS
  W = 3
  N = 2
  THR = 3
  THR2 = 1
  MODE = "square"
INVARIANT Contract
CHECK_DEADLOCK FALSE
