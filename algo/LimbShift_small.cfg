SPECIFICATION Spec
CONSTANTS
  W = 2
  MAXLIMBS = 3
INVARIANT Contract
INVARIANT Composed
CHECK_DEADLOCK FALSE
