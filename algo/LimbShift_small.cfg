SPECIFICATION Spec
CONSTANTS
  W = 2
  MAXLIMBS = 3
INVARIANT Contract
CHECK_DEADLOCK FALSE
