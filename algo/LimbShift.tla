---- MODULE LimbShift ----
(* Layer 2: the limb loops of overflowing_shl / overflowing_shr (bits.rs) with the limb width W as a constant, and the
   operations composed from them: reverse_bits (limb reversal + per-limb bit reversal gives a NON-canonical value that
   the right shift must bring back into range), rotate_left / rotate_right (shl | shr with the amount reduced modulo
   BITS; amount 0 relies on shr-by-BITS = 0), arithmetic_shr (shr | MAX << (BITS - s), saturating) -- invariant
   Composed: the values and that every result is canonical (top limb within the mask).
   Every (BITS, value, amount) of the down-scaled instance is explored; the final state must satisfy the
   Layer-1 contract (value * 2^s mod 2^BITS, floor(value / 2^s), exact lost-bit flags).  The flag is modelled in
   both forms: FlagOld = the last carry only (the code before the repair of DESIGN.md 9 #2) and FlagNew = the
   repaired formula; the invariant ContractOld reproduces the defect as a counterexample, Contract holds. *)
EXTENDS Naturals, Sequences, TLC
CONSTANTS W, MAXLIMBS
B == 2^W
NLimbs(bits) == (bits + W - 1) \div W
Mask(bits) == IF bits % W = 0 THEN B - 1 ELSE 2^(bits % W) - 1
RECURSIVE Val(_, _)
Val(x, n) == IF n = 0 THEN 0 ELSE x[n] * B^(n - 1) + Val(x, n - 1)
Lz(x, bits) == LET v == Val(x, Len(x)) IN
               IF v = 0 THEN bits ELSE LET RECURSIVE F(_) F(k) == IF v >= 2^k THEN F(k + 1) ELSE k IN bits - F(0)
Tz(x, bits) == LET v == Val(x, Len(x)) IN
               IF v = 0 THEN bits ELSE LET RECURSIVE F(_) F(k) == IF v % 2^(k + 1) # 0 THEN k ELSE F(k + 1) IN F(0)
\* overflowing_shl: limb loop as in bits.rs
Shl(x, s, bits) ==
  LET L == Len(x)  limbs == s \div W  sb == s % W IN
  IF limbs >= L THEN [v |-> [i \in 1..L |-> 0], old |-> Val(x, L) # 0, new |-> Val(x, L) # 0]
  ELSE LET RECURSIVE Loop(_, _, _)
           Loop(i, r, carry) ==      \* i: 0-based source limb
             IF i >= L - limbs THEN <<r, carry>>
             ELSE LET xi == x[i + 1]
                  IN Loop(i + 1, [r EXCEPT ![i + limbs + 1] = ((xi * 2^sb) % B) + carry], xi \div 2^(W - sb))
           res == Loop(0, [i \in 1..L |-> 0], 0)
           masked == [res[1] EXCEPT ![L] = res[1][L] % (Mask(bits) + 1)]
       IN [v |-> masked, old |-> res[2] # 0, new |-> Val(x, L) # 0 /\ s > Lz(x, bits)]
Shr(x, s, bits) ==
  LET L == Len(x)  limbs == s \div W  sb == s % W IN
  IF limbs >= L THEN [v |-> [i \in 1..L |-> 0], old |-> Val(x, L) # 0, new |-> Val(x, L) # 0]
  ELSE LET RECURSIVE Loop(_, _, _)
           Loop(i, r, carry) ==
             IF i >= L - limbs THEN <<r, carry>>
             ELSE LET xi == x[L - i]
                  IN Loop(i + 1, [r EXCEPT ![L - i - limbs] = (xi \div 2^sb) + carry], (xi * 2^(W - sb)) % B)
           res == Loop(0, [i \in 1..L |-> 0], 0)
       IN [v |-> res[1], old |-> res[2] # 0, new |-> Val(x, L) # 0 /\ s > Tz(x, bits)]
\* ---- operations composed from the two loops (bits.rs): reverse_bits, rotate_left / rotate_right, arithmetic_shr
RECURSIVE BitRev(_, _)
BitRev(w, k) == IF k = 0 THEN 0 ELSE (w % 2) * 2^(k - 1) + BitRev(w \div 2, k - 1)       \* reverse the low k bits of w
OrLimbs(p, q) == [i \in 1..Len(p) |-> LET RECURSIVE O(_, _, _) O(a, b, k) == IF k = 0 THEN 0 ELSE
                                             (IF a % 2 = 1 \/ b % 2 = 1 THEN 1 ELSE 0) + 2 * O(a \div 2, b \div 2, k - 1)
                                       IN O(p[i], q[i], W)]
\* limbs reversed, every limb bit-reversed -- a NON-canonical intermediate when BITS % W # 0 -- then shifted down
RevBits(y, bits) ==
  LET L == Len(y)
      t == [i \in 1..L |-> BitRev(y[L + 1 - i], W)]
  IN IF bits % W # 0 THEN Shr(t, W - (bits % W), bits).v ELSE t
RotL(y, k, bits) == LET rhs == k % bits IN OrLimbs(Shl(y, rhs, bits).v, Shr(y, bits - rhs, bits).v)
RotR(y, k, bits) == LET rhs == k % bits IN RotL(y, bits - rhs, bits)
MaxLimbs(bits) == [i \in 1..NLimbs(bits) |-> IF i = NLimbs(bits) THEN Mask(bits) ELSE B - 1]
AShr(y, k, bits) ==
  LET sign == (Val(y, Len(y)) \div 2^(bits - 1)) % 2 = 1
      r0 == Shr(y, k, bits).v
  IN IF sign THEN OrLimbs(r0, Shl(MaxLimbs(bits), IF bits >= k THEN bits - k ELSE 0, bits).v) ELSE r0
VARIABLES bits, x, s, done, l, r
Init == /\ bits \in 1..(W * MAXLIMBS)
        /\ x \in [1..NLimbs(bits) -> 0..(B - 1)] /\ x[NLimbs(bits)] <= Mask(bits)
        /\ s \in 0..(bits + W * NLimbs(bits) + 1)
        /\ done = FALSE /\ l = <<>> /\ r = <<>>
Next == ~done /\ done' = TRUE /\ l' = Shl(x, s, bits) /\ r' = Shr(x, s, bits) /\ UNCHANGED <<bits, x, s>>
Spec == Init /\ [][Next]_<<bits, x, s, done, l, r>>
V == Val(x, Len(x))
RECURSIVE OrNat(_, _)
OrNat(a, b) == IF a = 0 THEN b ELSE IF b = 0 THEN a ELSE (IF a % 2 = 1 \/ b % 2 = 1 THEN 1 ELSE 0) + 2 * OrNat(a \div 2, b \div 2)
ValuesOK == done => /\ Val(l.v, Len(x)) = (V * 2^s) % 2^bits
                    /\ Val(r.v, Len(x)) = V \div 2^s
Contract == done => /\ ValuesOK
                    /\ l.new = (V * 2^s >= 2^bits)
                    /\ r.new = (V % 2^s # 0)
Canon(y) == y[Len(y)] <= Mask(bits)
Composed ==
  LET L == Len(x)  M == 2^bits IN
  /\ Val(RevBits(x, bits), L) = BitRev(V, bits) /\ Canon(RevBits(x, bits))
  /\ LET k == s % bits IN Val(RotL(x, s, bits), L) = ((V * 2^k) % M) + (V \div 2^(bits - k)) /\ Canon(RotL(x, s, bits))
  /\ LET k == s % bits IN Val(RotR(x, s, bits), L) = (V \div 2^k) + ((V % 2^k) * 2^(bits - k)) /\ Canon(RotR(x, s, bits))
  /\ LET sign == (V \div 2^(bits - 1)) % 2 = 1
         fill == IF s >= bits THEN M - 1 ELSE M - 2^(bits - s)
     IN Val(AShr(x, s, bits), L) = (IF sign THEN OrNat(V \div 2^s, fill) ELSE V \div 2^s) /\ Canon(AShr(x, s, bits))
\* the pre-repair flag: violated (e.g. BITS = 3, x = <<0, 1>>, s = 2 at W = 2)
ContractOld == done => l.old = (V * 2^s >= 2^bits) /\ r.old = (V % 2^s # 0)
====
