---- MODULE LimbShift ----
(* Layer 2: the limb loops of overflowing_shl / overflowing_shr (bits.rs) with the limb width W as a constant.
   Every (BITS, value, amount) of the down-scaled instance is explored; the final state must satisfy the
   Layer-1 contract (value * 2^s mod 2^BITS, floor(value / 2^s), exact lost-bit flags).  The flag is modelled in
   both forms: FlagOld = the last carry only (the code before the repair of DESIGN.md 9 #2) and FlagNew = the
   repaired formula; the invariant ContractOld reproduces the defect as a counterexample, Contract holds. *)
EXTENDS Naturals, Sequences, TLC
CONSTANTS W, MAXLIMBS
B == 2^W
NLimbs(bits) == (bits + W - 1) \div W
Mask(bits) == IF bits % W = 0 THEN B - 1 ELSE 2^(bits % W) - 1
RECURSIVE Val(_, _)
Val(x, n) == IF n = 0 THEN 0 ELSE x[n] * B^(n - 1) + Val(x, n - 1)
Lz(x, bits) == LET v == Val(x, Len(x)) IN
               IF v = 0 THEN bits ELSE LET RECURSIVE F(_) F(k) == IF v >= 2^k THEN F(k + 1) ELSE k IN bits - F(0)
Tz(x, bits) == LET v == Val(x, Len(x)) IN
               IF v = 0 THEN bits ELSE LET RECURSIVE F(_) F(k) == IF v % 2^(k + 1) # 0 THEN k ELSE F(k + 1) IN F(0)
\* overflowing_shl: limb loop as in bits.rs
Shl(x, s, bits) ==
  LET L == Len(x)  limbs == s \div W  sb == s % W IN
  IF limbs >= L THEN [v |-> [i \in 1..L |-> 0], old |-> Val(x, L) # 0, new |-> Val(x, L) # 0]
  ELSE LET RECURSIVE Loop(_, _, _)
           Loop(i, r, carry) ==      \* i: 0-based source limb
             IF i >= L - limbs THEN <<r, carry>>
             ELSE LET xi == x[i + 1]
                  IN Loop(i + 1, [r EXCEPT ![i + limbs + 1] = ((xi * 2^sb) % B) + carry], xi \div 2^(W - sb))
           res == Loop(0, [i \in 1..L |-> 0], 0)
           masked == [res[1] EXCEPT ![L] = res[1][L] % (Mask(bits) + 1)]
       IN [v |-> masked, old |-> res[2] # 0, new |-> Val(x, L) # 0 /\ s > Lz(x, bits)]
Shr(x, s, bits) ==
  LET L == Len(x)  limbs == s \div W  sb == s % W IN
  IF limbs >= L THEN [v |-> [i \in 1..L |-> 0], old |-> Val(x, L) # 0, new |-> Val(x, L) # 0]
  ELSE LET RECURSIVE Loop(_, _, _)
           Loop(i, r, carry) ==
             IF i >= L - limbs THEN <<r, carry>>
             ELSE LET xi == x[L - i]
                  IN Loop(i + 1, [r EXCEPT ![L - i - limbs] = (xi \div 2^sb) + carry], (xi * 2^(W - sb)) % B)
           res == Loop(0, [i \in 1..L |-> 0], 0)
       IN [v |-> res[1], old |-> res[2] # 0, new |-> Val(x, L) # 0 /\ s > Tz(x, bits)]
VARIABLES bits, x, s, done, l, r
Init == /\ bits \in 1..(W * MAXLIMBS)
        /\ x \in [1..NLimbs(bits) -> 0..(B - 1)] /\ x[NLimbs(bits)] <= Mask(bits)
        /\ s \in 0..(bits + W * NLimbs(bits) + 1)
        /\ done = FALSE /\ l = <<>> /\ r = <<>>
Next == ~done /\ done' = TRUE /\ l' = Shl(x, s, bits) /\ r' = Shr(x, s, bits) /\ UNCHANGED <<bits, x, s>>
Spec == Init /\ [][Next]_<<bits, x, s, done, l, r>>
V == Val(x, Len(x))
ValuesOK == done => /\ Val(l.v, Len(x)) = (V * 2^s) % 2^bits
                    /\ Val(r.v, Len(x)) = V \div 2^s
Contract == done => /\ ValuesOK
                    /\ l.new = (V * 2^s >= 2^bits)
                    /\ r.new = (V % 2^s # 0)
\* the pre-repair flag: violated (e.g. BITS = 3, x = <<0, 1>>, s = 2 at W = 2)
ContractOld == done => l.old = (V * 2^s >= 2^bits) /\ r.old = (V % 2^s # 0)
====
