SPECIFICATION Spec
CONSTANTS
  W = 2
  N = 3
  THR = 1
  THR2 = 0
  MODE = "square"
INVARIANT Contract
CHECK_DEADLOCK FALSE
