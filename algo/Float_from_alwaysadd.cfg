SPECIFICATION Spec
CONSTANTS
  P = 4
  W = 5
  NMAX = 10
  MODE = "from"
  NOGUARD = FALSE
  ALWAYSADD = TRUE
INVARIANT Contract
INVARIANT Monotone
CHECK_DEADLOCK FALSE
