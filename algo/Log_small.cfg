SPECIFICATION Spec
CONSTANTS
  NMAX = 7
  EST = "near"
INVARIANT Contract
PROPERTY Progress
CHECK_DEADLOCK FALSE
