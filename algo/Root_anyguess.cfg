SPECIFICATION Spec
CONSTANTS
  NMAX = 4
  GUESS = "any"
  STEPBOUND = 40
INVARIANT Contract
INVARIANT Above
INVARIANT Terminates
INVARIANT NoWrap
PROPERTY Progress
CHECK_DEADLOCK FALSE
