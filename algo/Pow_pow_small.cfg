SPECIFICATION Spec
CONSTANTS
  NMAX = 5
  MODE = "pow"
INVARIANT Contract
INVARIANT LoopInv
PROPERTY Progress
CHECK_DEADLOCK FALSE
