SPECIFICATION Spec
CONSTANTS
  H = 3
  TMAX = 3
  NB = 1
  MODE = "prefix"
INVARIANT Contract
INVARIANT Exact
INVARIANT Packed
CHECK_DEADLOCK FALSE
