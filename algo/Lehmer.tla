---- MODULE Lehmer ----
(* Layer 2: Lehmer's GCD of algorithms/gcd/{matrix,mod}.rs with the half-word width H as a constant
   (the code has H = 32: LIMIT = 2^32, words of 2H = 64 bits, cofactors SWAR-packed two to a word).

   MODE = "prefix"  from_u64_prefix on every normalised prefix (a0 has its top bit set, a1 <= a0) of the
                    instance.  The matrix is then applied, in exact integers, to EVERY pair (A, B) that
                    extends the prefix by T = 1..TMAX further low bits -- this is what Matrix::from does with
                    the leading 64 bits of wider numbers.
   MODE = "full"    from_u64 (plain extended Euclid in one word) on every r0 >= r1.
   MODE = "ext"     the loop of gcd_extended (and gcd: same a, b trajectory) on every pair of NB-bit values,
                    one Lehmer-or-Euclid step per transition, all Uint arithmetic modulo 2^NB as in the code.
   MODE = "inv"     the loop of inv_mod(num, modulus) likewise.

   Contract  is the statement of property C12 / C10 for the final state;  Exact is the stronger design
   intent (Jebelean's condition: the result is a pair of CONSECUTIVE remainders of the true Euclidean
   sequence);  Packed says the SWAR packing never carries from v into u and no u64 operation wraps;
   NoPanic says no Uint::from(u64) / debug assertion can fire;  LoopInv is the loop invariant of the Uint
   loops (a >= b, gcd preserved, Bezout rows valid modulo 2^NB) and Progress the termination argument. *)
EXTENDS Integers, Sequences, TLC
CONSTANTS H, TMAX, NB, MODE
LIMIT == 2^H
WB == LIMIT * LIMIT                   \* one word
M == 2^NB                             \* Uint<NB> modulus
WSub(x, y, m) == (x + m - (y % m)) % m
RECURSIVE Gcd(_, _)
Gcd(a, b) == IF b = 0 THEN a ELSE Gcd(b, a % b)
RECURSIVE Pairs(_, _)                 \* consecutive pairs of the Euclidean remainder sequence
Pairs(a, b) == IF b = 0 THEN {<<a, 0>>} ELSE {<<a, b>>} \cup Pairs(b, a % b)
RECURSIVE BitLen(_)
BitLen(x) == IF x = 0 THEN 0 ELSE 1 + BitLen(x \div 2)
IDENTITY == <<1, 0, 0, 1, TRUE>>
\* exact (integer) application of a matrix with implicit signs
ApplyZ(m, a, b) == IF m[5] THEN <<m[1] * a - m[2] * b, m[4] * b - m[3] * a>>
                   ELSE <<m[2] * b - m[1] * a, m[3] * a - m[4] * b>>
\* Matrix::apply on Uint<NB>: wrapping; Uint::from(u64) panics when the entry does not fit
ApplyU(m, a, b) == IF m[5] THEN <<WSub(m[1] * a, m[2] * b, M), WSub(m[4] * b, m[3] * a, M)>>
                   ELSE <<WSub(m[2] * b, m[1] * a, M), WSub(m[3] * a, m[4] * b, M)>>
EntriesFit(m) == \A i \in 1..4 : m[i] < M

(* ---------------------------------------------------------------- from_u64 *)
RECURSIVE FullLoop(_, _, _, _, _, _, _)
FullLoop(r0, r1, q00, q01, q10, q11, fit) ==
  LET q == r0 \div r1
      r0n == r0 - q * r1
      q00n == q00 + q * q10
      q01n == q01 + q * q11
      fit1 == fit /\ q00n < WB /\ q01n < WB
  IN IF r0n = 0 THEN [m |-> <<q10, q11, q00n, q01n, FALSE>>, fit |-> fit1]
     ELSE LET p == r1 \div r0n
              r1n == r1 - p * r0n
              q10n == q10 + p * q00n
              q11n == q11 + p * q01n
              fit2 == fit1 /\ q10n < WB /\ q11n < WB
          IN IF r1n = 0 THEN [m |-> <<q00n, q01n, q10n, q11n, TRUE>>, fit |-> fit2]
             ELSE FullLoop(r0n, r1n, q00n, q01n, q10n, q11n, fit2)
Full(r0, r1) == IF r1 = 0 THEN [m |-> IDENTITY, fit |-> TRUE] ELSE FullLoop(r0, r1, 1, 0, 0, 1, TRUE)

(* --------------------------------------------------------- from_u64_prefix *)
U(k) == k \div LIMIT
V(k) == k % LIMIT
\* rotate-and-divide half iteration of the unrolled loop; pk = "no carry between the packed halves, no wrap"
HalfStep(s) ==
  LET q == s.a2 \div s.a3
      k3n == s.k2 + q * s.k3
  IN [a1 |-> s.a2, a2 |-> s.a3, a3 |-> s.a2 - q * s.a3,
      k0 |-> s.k1, k1 |-> s.k2, k2 |-> s.k3, k3 |-> k3n % WB,
      pk |-> s.pk /\ U(s.k2) + q * U(s.k3) < LIMIT /\ V(s.k2) + q * V(s.k3) < LIMIT,
      even |-> s.even, steps |-> s.steps + 1]
RECURSIVE PLoop(_, _)
PLoop(s, half) ==
  IF half = 1 /\ s.a3 < LIMIT THEN s
  ELSE LET n == HalfStep(s) IN
       IF half = 1 THEN (IF n.a3 < LIMIT THEN [n EXCEPT !.even = FALSE] ELSE PLoop(n, 2))
       ELSE PLoop(n, 1)
Select(s) ==
  LET u0 == U(s.k0)  u1 == U(s.k1)  u2 == U(s.k2)  u3 == U(s.k3)
      v0 == V(s.k0)  v1 == V(s.k1)  v2 == V(s.k2)  v3 == V(s.k3)
      a1 == s.a1  a2 == s.a2  a3 == s.a3
  IN IF s.even
     THEN [asserts |-> a2 >= LIMIT /\ a3 < LIMIT /\ a2 >= v2 /\ a1 >= a2 /\ a2 >= a3,
           m |-> IF a1 - a2 >= u2 + u1
                 THEN (IF a3 >= u3 /\ a2 - a3 >= v3 + v2 THEN <<u2, v2, u3, v3, TRUE>>
                       ELSE <<u1, v1, u2, v2, FALSE>>)
                 ELSE <<u0, v0, u1, v1, TRUE>>,
           branch |-> IF a1 - a2 >= u2 + u1
                      THEN (IF a3 >= u3 /\ a2 - a3 >= v3 + v2 THEN "even_i2" ELSE "even_i1")
                      ELSE "even_i0"]
     ELSE [asserts |-> a2 >= LIMIT /\ a3 < LIMIT /\ a2 >= u2 /\ a1 >= a2 /\ a2 >= a3,
           m |-> IF a1 - a2 >= v2 + v1
                 THEN (IF a3 >= v3 /\ a2 - a3 >= u3 + u2 THEN <<u2, v2, u3, v3, FALSE>>
                       ELSE <<u1, v1, u2, v2, TRUE>>)
                 ELSE <<u0, v0, u1, v1, FALSE>>,
           branch |-> IF a1 - a2 >= v2 + v1
                      THEN (IF a3 >= v3 /\ a2 - a3 >= u3 + u2 THEN "odd_i2" ELSE "odd_i1")
                      ELSE "odd_i0"]
Prefix(a0, a1) ==
  IF a1 < LIMIT THEN [m |-> IDENTITY, pk |-> TRUE, asserts |-> TRUE, branch |-> "small_a1"]
  ELSE
    LET k0 == LIMIT
        k1 == 1
        q == a0 \div a1
        a2 == a0 - q * a1
        k2 == (k0 + q * k1) % WB
        pk2 == q < LIMIT
    IN IF a2 < LIMIT
       THEN (IF a2 >= V(k2) /\ a1 - a2 >= U(k2)
             THEN [m |-> <<0, 1, U(k2), V(k2), FALSE>>, pk |-> pk2, asserts |-> TRUE, branch |-> "a2_small_odd"]
             ELSE [m |-> IDENTITY, pk |-> pk2, asserts |-> TRUE, branch |-> "a2_small_identity"])
       ELSE
         LET p == a1 \div a2
             a3 == a1 - p * a2
             k3 == (k1 + p * k2) % WB
             pk3 == pk2 /\ U(k1) + p * U(k2) < LIMIT /\ V(k1) + p * V(k2) < LIMIT
             s == PLoop([a1 |-> a1, a2 |-> a2, a3 |-> a3, k0 |-> k0, k1 |-> k1, k2 |-> k2, k3 |-> k3,
                         pk |-> pk3, even |-> TRUE, steps |-> 0], 1)
             sel == Select(s)
         IN [m |-> sel.m, pk |-> s.pk, asserts |-> sel.asserts, branch |-> sel.branch]

(* ------------------------------------------------------------ Matrix::from *)
\* s <= 64: from_u64;  otherwise the leading word (from_u128_prefix normalises and keeps the top word)
From(a, b) ==
  LET s == BitLen(a) IN
  IF s <= 2 * H THEN LET f == Full(a, b) IN [m |-> f.m, ok |-> f.fit, kind |-> "full"]
  ELSE LET sh == 2^(s - 2 * H)
           p == Prefix(a \div sh, b \div sh)
       IN [m |-> p.m, ok |-> p.pk /\ p.asserts, kind |-> p.branch]

(* ------------------------------------------------------------------ machine *)
VARIABLES A, Bv, a, b, s0, s1, t0, t1, even, pc, out, ok
vars == <<A, Bv, a, b, s0, s1, t0, t1, even, pc, out, ok>>
Max(x, y) == IF x >= y THEN x ELSE y
Min(x, y) == IF x >= y THEN y ELSE x
InitOnce ==      \* prefix / full: one evaluation per input
  /\ pc = "eval" /\ out = <<>> /\ ok = TRUE
  /\ a = 0 /\ b = 0 /\ s0 = 0 /\ s1 = 0 /\ t0 = 0 /\ t1 = 0 /\ even = TRUE
  /\ IF MODE = "prefix" THEN A \in (WB \div 2)..(WB - 1) ELSE A \in 0..(WB - 1)
  /\ Bv \in 0..A
InitExt ==
  /\ A \in 0..(M - 1) /\ Bv \in 0..(M - 1)
  /\ a = Max(A, Bv) /\ b = Min(A, Bv)
  /\ s0 = 1 % M /\ s1 = 0 /\ t0 = 0 /\ t1 = 1 % M /\ even = TRUE
  /\ pc = "loop" /\ out = <<>> /\ ok = TRUE
InitInv ==        \* A = num, Bv = modulus
  /\ A \in 0..(M - 1) /\ Bv \in 0..(M - 1)
  /\ a = Bv /\ b = (IF Bv = 0 THEN 0 ELSE IF A >= Bv THEN A % Bv ELSE A)
  /\ s0 = 0 /\ s1 = 0 /\ t0 = 0 /\ t1 = 1 % M /\ even = TRUE
  /\ pc = IF Bv = 0 \/ b = 0 THEN "none" ELSE "loop"
  /\ out = <<>> /\ ok = TRUE
Init == IF MODE \in {"prefix", "full"} THEN InitOnce ELSE IF MODE = "ext" THEN InitExt ELSE InitInv
Eval ==
  /\ pc = "eval" /\ pc' = "done"
  /\ LET r == IF MODE = "prefix" THEN Prefix(A, Bv) ELSE Full(A, Bv) IN
       /\ out' = IF MODE = "prefix" THEN <<r.m, r.branch>> ELSE <<r.m, "full">>
       /\ ok' = IF MODE = "prefix" THEN r.pk /\ r.asserts ELSE r.fit
  /\ UNCHANGED <<A, Bv, a, b, s0, s1, t0, t1, even>>
LehmerStep ==
  /\ pc = "loop" /\ b # 0
  /\ LET f == From(a, b) IN
     IF f.m = IDENTITY
     THEN LET q == a \div b IN
          /\ a' = b /\ b' = a - q * b
          /\ s0' = s1 /\ s1' = WSub(s0, q * s1, M)
          /\ t0' = t1 /\ t1' = WSub(t0, q * t1, M)
          /\ even' = ~even
          /\ ok' = (ok /\ f.ok)
     ELSE /\ a' = ApplyU(f.m, a, b)[1] /\ b' = ApplyU(f.m, a, b)[2]
          /\ s0' = ApplyU(f.m, s0, s1)[1] /\ s1' = ApplyU(f.m, s0, s1)[2]
          /\ t0' = ApplyU(f.m, t0, t1)[1] /\ t1' = ApplyU(f.m, t0, t1)[2]
          /\ even' = (even = f.m[5])              \* even ^= !m.4
          /\ ok' = (ok /\ f.ok /\ EntriesFit(f.m))
  /\ UNCHANGED <<A, Bv, pc, out>>
Finish ==
  /\ pc = "loop" /\ b = 0 /\ pc' = "done"
  /\ IF MODE = "ext"
     THEN LET x == IF even THEN s0 ELSE WSub(0, s0, M)
              y == IF even THEN WSub(0, t0, M) ELSE t0
          IN out' = IF A < Bv THEN <<a, y, x, ~even>> ELSE <<a, x, y, even>>
     ELSE out' = IF a = 1 THEN <<"some", IF even THEN (Bv + t0) % M ELSE t0>> ELSE <<"none">>
  /\ UNCHANGED <<A, Bv, a, b, s0, s1, t0, t1, even, ok>>
NoneExit == pc = "none" /\ pc' = "done" /\ out' = <<"none">> /\ UNCHANGED <<A, Bv, a, b, s0, s1, t0, t1, even, ok>>
Next == Eval \/ LehmerStep \/ Finish \/ NoneExit
Spec == Init /\ [][Next]_vars

(* ---------------------------------------------------------------- contracts *)
Pow2(T) == 2^T
\* the property's clause on Lehmer matrices, for one pair
MatrixOK(m, x, y) == m = IDENTITY \/ LET r == ApplyZ(m, x, y) IN
                       r[1] >= r[2] /\ r[2] >= 0 /\ r[2] < y /\ Gcd(r[1], r[2]) = Gcd(x, y)
MatrixExact(m, x, y) == IF m = IDENTITY THEN TRUE ELSE y > 0 /\ ApplyZ(m, x, y) \in Pairs(y, x % y)
ForExtensions(P(_, _, _)) ==
  \A T \in 0..TMAX : \A lx \in 0..(Pow2(T) - 1) : \A ly \in 0..(Pow2(T) - 1) :
     LET x == A * Pow2(T) + lx  y == Bv * Pow2(T) + ly IN x >= y => P(out[1], x, y)
Contract ==
  pc = "done" =>
    CASE MODE = "prefix" -> ForExtensions(MatrixOK)
      [] MODE = "full"   -> ApplyZ(out[1], A, Bv) = <<Gcd(A, Bv), 0>>
      [] MODE = "ext"    -> /\ out[1] = Gcd(A, Bv)
                            /\ IF out[4] THEN WSub(A * out[2], Bv * out[3], M) = out[1] % M
                               ELSE WSub(Bv * out[3], A * out[2], M) = out[1] % M
      [] MODE = "inv"    -> IF Bv # 0 /\ A % Bv # 0 /\ Gcd(A % Bv, Bv) = 1
                            THEN out[1] = "some" /\ out[2] < Bv /\ (out[2] * A) % Bv = 1
                            ELSE out = <<"none">>
Exact == pc = "done" /\ MODE = "prefix" => ForExtensions(MatrixExact)
Packed == ok
\* Uint loops: invariant of every reachable state
\* the cofactors are two's-complement values modulo 2^NB (the Euclid step subtracts in place); `even` records
\* which of the pair is the non-positive one
SgnT0 == IF even /\ t0 # 0 THEN t0 - M ELSE t0
SgnT1 == IF ~even /\ t1 # 0 THEN t1 - M ELSE t1
LoopInv ==
  MODE \in {"ext", "inv"} /\ pc = "loop" =>
    /\ a >= b
    /\ Gcd(a, b) = (IF MODE = "ext" THEN Gcd(A, Bv) ELSE Gcd(A % Bv, Bv))
    /\ LET X == IF MODE = "ext" THEN Max(A, Bv) ELSE Bv
           Y == IF MODE = "ext" THEN Min(A, Bv) ELSE (IF A >= Bv THEN A % Bv ELSE A)
       IN /\ (MODE = "ext" => a = (s0 * X + t0 * Y) % M /\ b = (s1 * X + t1 * Y) % M)
          /\ (MODE = "inv" => /\ (a - SgnT0 * Y) % Bv = 0 /\ (b - SgnT1 * Y) % Bv = 0
                              /\ (even => -Bv < SgnT0 /\ SgnT0 <= 0)
                              /\ (~even => 0 <= SgnT0 /\ SgnT0 < Bv))
Progress == [][pc = "loop" /\ pc' = "loop" => b' < b]_vars
\* reachability witnesses (as invariants to be refuted)
NoEvenI2 == ~(pc = "done" /\ MODE = "prefix" /\ out[2] = "even_i2")
NoOddI0 == ~(pc = "done" /\ MODE = "prefix" /\ out[2] = "odd_i0")
NoEvenI0 == ~(pc = "done" /\ MODE = "prefix" /\ out[2] = "even_i0")
NoA2SmallIdentity == ~(pc = "done" /\ MODE = "prefix" /\ out[2] = "a2_small_identity")
====
