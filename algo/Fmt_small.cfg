SPECIFICATION Spec
CONSTANTS
  NMAX = 10
  K = 2
INVARIANT Contract
INVARIANT Fits
INVARIANT Chunks
CHECK_DEADLOCK FALSE
