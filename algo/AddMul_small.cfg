SPECIFICATION Spec
CONSTANTS
  W = 2
  MAXLEN = 2
INVARIANT Contract
CHECK_DEADLOCK FALSE
