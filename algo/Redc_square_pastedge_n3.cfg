SPECIFICATION Spec
CONSTANTS
  W = 3
  N = 3
  THR = 1
  THR2 = 4
  MODE = "square"
INVARIANT Contract
CHECK_DEADLOCK FALSE
