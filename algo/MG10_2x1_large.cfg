SPECIFICATION Spec
CONSTANTS
  W = 7
  MODE = "2x1"
INVARIANT Contract
CHECK_DEADLOCK FALSE
