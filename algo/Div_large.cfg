SPECIFICATION Spec
CONSTANTS
  W = 3
  NL = 4
  DL = 2
INVARIANT Contract
INVARIANT Pre
INVARIANT TopLimb
CHECK_DEADLOCK FALSE
