SPECIFICATION Spec
CONSTANTS
  H = 3
  TMAX = 0
  NB = 1
  MODE = "full"
INVARIANT Contract
INVARIANT Packed
CHECK_DEADLOCK FALSE
