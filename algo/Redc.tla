---- MODULE Redc ----
EXTENDS Naturals, Sequences, TLC
CONSTANTS W, N, THR      \* THR: keep carry iff modulus[N] >= THR  (code: B/2 - 1)
B == 2^W
RECURSIVE Val(_,_)
Val(x, n) == IF n = 0 THEN 0 ELSE x[n] * B^(n-1) + Val(x, n-1)
InvOf(m0) == CHOOSE x \in 0..(B-1) : (x * m0) % B = B - 1
\* mul_redc CIOS as in mul_redc.rs; returns [res, droppedCarry]
MulRedc(a, b, m, inv) ==
  LET RECURSIVE Inner(_,_,_,_,_,_)
      Inner(i, res, bj, mm, c1, c2) ==     \* i 1-based limb
        IF i > N THEN <<res, c1, c2>>
        ELSE LET t1 == a[i]*bj + res[i] + c1   v1 == t1 % B   nc1 == t1 \div B
                 mq == IF i = 1 THEN (v1 * inv) % B ELSE mm
                 t2 == m[i]*mq + v1 + c2        v2 == t2 % B   nc2 == t2 \div B
             IN Inner(i+1, IF i > 1 THEN [res EXCEPT ![i-1] = v2] ELSE res, bj, mq, nc1, nc2)
      RECURSIVE Outer(_,_,_,_)
      Outer(j, res, carry, dropped) ==
        IF j > N THEN [res |-> res, carry |-> carry, dropped |-> dropped]
        ELSE LET r == Inner(1, res, b[j], 0, 0, 0)
                 t == r[2] + r[3] + carry
                 res2 == [r[1] EXCEPT ![N] = t % B]
                 nc == t \div B
             IN IF m[N] >= THR THEN Outer(j+1, res2, nc, dropped) ELSE Outer(j+1, res2, 0, dropped \/ (nc # 0))
      o == Outer(1, [i \in 1..N |-> 0], 0, FALSE)
      v == Val(o.res, N)   mv == Val(m, N)
      borrow == v < mv
      out == IF o.carry # 0 \/ ~borrow THEN (v + B^N - mv) % B^N ELSE v
  IN [out |-> out, dropped |-> o.dropped, carry |-> o.carry # 0, sub |-> (o.carry # 0 \/ ~borrow)]
VARIABLES a, b, m, done, out
Init == /\ m \in [1..N -> 0..(B-1)] /\ m[1] % 2 = 1 /\ Val(m, N) >= 3
        /\ a \in [1..N -> 0..(B-1)] /\ Val(a, N) < Val(m, N)
        /\ b \in [1..N -> 0..(B-1)] /\ Val(b, N) < Val(m, N)
        /\ done = FALSE /\ out = <<>>
Next == ~done /\ done' = TRUE /\ out' = MulRedc(a, b, m, InvOf(m[1])) /\ UNCHANGED <<a, b, m>>
Spec == Init /\ [][Next]_<<a, b, m, done, out>>
Contract == done => LET mv == Val(m, N) IN /\ out.out < mv /\ (out.out * B^N) % mv = (Val(a,N) * Val(b,N)) % mv /\ ~out.dropped
NoCarry == done => ~out.carry
====
