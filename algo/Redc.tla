---- MODULE Redc ----
EXTENDS Naturals, Sequences, TLC
CONSTANTS W, N, THR,     \* THR: mul_redc keeps the carry iff modulus[N] >= THR  (code: B/2 - 1)
          THR2, MODE      \* THR2: square_redc takes the wide-carry branch iff modulus[N] >= THR2 (code: B/4 - 1); MODE = "mul" | "square"
B == 2^W
RECURSIVE Val(_,_)
Val(x, n) == IF n = 0 THEN 0 ELSE x[n] * B^(n-1) + Val(x, n-1)
InvOf(m0) == CHOOSE x \in 0..(B-1) : (x * m0) % B = B - 1
\* mul_redc CIOS as in mul_redc.rs; returns [res, droppedCarry]
MulRedc(a, b, m, inv) ==
  LET RECURSIVE Inner(_,_,_,_,_,_)
      Inner(i, res, bj, mm, c1, c2) ==     \* i 1-based limb
        IF i > N THEN <<res, c1, c2>>
        ELSE LET t1 == a[i]*bj + res[i] + c1   v1 == t1 % B   nc1 == t1 \div B
                 mq == IF i = 1 THEN (v1 * inv) % B ELSE mm
                 t2 == m[i]*mq + v1 + c2        v2 == t2 % B   nc2 == t2 \div B
             IN Inner(i+1, IF i > 1 THEN [res EXCEPT ![i-1] = v2] ELSE res, bj, mq, nc1, nc2)
      RECURSIVE Outer(_,_,_,_)
      Outer(j, res, carry, dropped) ==
        IF j > N THEN [res |-> res, carry |-> carry, dropped |-> dropped]
        ELSE LET r == Inner(1, res, b[j], 0, 0, 0)
                 t == r[2] + r[3] + carry
                 res2 == [r[1] EXCEPT ![N] = t % B]
                 nc == t \div B
             IN IF m[N] >= THR THEN Outer(j+1, res2, nc, dropped) ELSE Outer(j+1, res2, 0, dropped \/ (nc # 0))
      o == Outer(1, [i \in 1..N |-> 0], 0, FALSE)
      v == Val(o.res, N)   mv == Val(m, N)
      borrow == v < mv
      out == IF o.carry # 0 \/ ~borrow THEN (v + B^N - mv) % B^N ELSE v
  IN [out |-> out, dropped |-> o.dropped, carry |-> o.carry # 0, sub |-> (o.carry # 0 \/ ~borrow)]
\* square_redc as in mul_redc.rs: diagonal term, doubled cross terms with a two-part carry (carry_lo word +
\* carry_hi bit), one reduction row per outer iteration, carry_outer in {0,1,2} when the modulus is wide.
\* `bad` collects every debug assertion of the code and the one thing the code cannot represent (both carries
\* of carrying_double_mul_add set at once).
SquareRedc(a, m, inv) ==
  LET RECURSIVE Cross(_,_,_,_,_,_)
      Cross(i, j, res, clo, chi, bad) ==
        IF j > N THEN <<res, clo, chi, bad>>
        ELSE LET wide == a[i] * a[j]
                 c1 == 2 * wide >= B * B
                 w2 == (2 * wide) % (B * B)
                 carries == res[j] + clo + (IF chi THEN B ELSE 0)
                 c2 == w2 + carries >= B * B
                 w3 == (w2 + carries) % (B * B)
             IN Cross(i, j + 1, [res EXCEPT ![j] = w3 % B], w3 \div B, c1 \/ c2, bad \/ (c1 /\ c2))
      RECURSIVE Reduce(_,_,_,_)
      Reduce(j, res, mm, carry) ==
        IF j > N THEN <<res, carry>>
        ELSE LET t == m[j] * mm + res[j] + carry IN Reduce(j + 1, [res EXCEPT ![j - 1] = t % B], mm, t \div B)
      RECURSIVE Outer(_,_,_,_)
      Outer(i, res, couter, bad) ==
        IF i > N THEN [res |-> res, couter |-> couter, bad |-> bad]
        ELSE LET t == a[i] * a[i] + res[i]
                 cr == Cross(i, i + 1, [res EXCEPT ![i] = t % B], t \div B, FALSE, bad)
                 r1 == cr[1]  clo == cr[2]  chi == cr[3]
                 mm == (r1[1] * inv) % B
                 t0 == mm * m[1] + r1[1]
                 rd == Reduce(2, r1, mm, t0 \div B)
                 r2 == rd[1]  carry == rd[2]
                 bad1 == cr[4] \/ (t0 % B # 0)
             IN IF m[N] >= THR2
                THEN LET wide == couter + clo + (IF chi THEN B ELSE 0) + carry
                     IN Outer(i + 1, [r2 EXCEPT ![N] = wide % B], wide \div B, bad1 \/ (wide \div B > 2))
                ELSE Outer(i + 1, [r2 EXCEPT ![N] = (clo + carry) % B], couter,
                           bad1 \/ chi \/ couter # 0 \/ clo + carry >= B)
      o == Outer(1, [i \in 1..N |-> 0], 0, FALSE)
      v == Val(o.res, N)   mv == Val(m, N)
      borrow == v < mv
      out == IF o.couter > 0 \/ ~borrow THEN (v + B^N - mv) % B^N ELSE v
  IN [out |-> out, dropped |-> o.bad \/ o.couter > 1, carry |-> o.couter > 0, sub |-> (o.couter > 0 \/ ~borrow)]
VARIABLES a, b, m, done, out
Init == /\ m \in [1..N -> 0..(B-1)] /\ m[1] % 2 = 1 /\ Val(m, N) >= 3
        /\ a \in [1..N -> 0..(B-1)] /\ Val(a, N) < Val(m, N)
        /\ IF MODE = "mul" THEN b \in [1..N -> 0..(B-1)] /\ Val(b, N) < Val(m, N) ELSE b = a
        /\ done = FALSE /\ out = <<>>
Next == ~done /\ done' = TRUE /\ out' = (IF MODE = "mul" THEN MulRedc(a, b, m, InvOf(m[1])) ELSE SquareRedc(a, m, InvOf(m[1]))) /\ UNCHANGED <<a, b, m>>
Spec == Init /\ [][Next]_<<a, b, m, done, out>>
Contract == done => LET mv == Val(m, N) IN /\ out.out < mv /\ (out.out * B^N) % mv = (Val(a,N) * Val(b,N)) % mv /\ ~out.dropped
NoCarry == done => ~out.carry
====
