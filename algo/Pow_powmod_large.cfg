SPECIFICATION Spec
CONSTANTS
  NMAX = 6
  MODE = "powmod"
INVARIANT Contract
INVARIANT LoopInv
PROPERTY Progress
CHECK_DEADLOCK FALSE
