SPECIFICATION Spec
CONSTANTS
  W = 3
  L = 2
  DMAX = 5
  MODE = "be"
INVARIANT Contract
INVARIANT Inv
INVARIANT SpigotInv
CHECK_DEADLOCK FALSE
