---- MODULE MG10Ops ----
(* Operators shared by MG10.tla and Div.tla: the Moller-Granlund digit steps of small.rs / reciprocal.rs with the
   limb width W as a constant (u64 arithmetic = arithmetic modulo B). *)
EXTENDS Naturals
CONSTANT W
B == 2^W
BB == B * B
WSub(a, b, M) == (a + M - (b % M)) % M
Recip(d) == ((BB - 1) \div d) - B                 \* contract of reciprocal(d), d in [B/2, B)
Recip2Contract(d) == ((B * BB - 1) \div d) - B     \* contract of reciprocal_2(d), d in [BB/2, BB)
\* reciprocal_2_mg10 from reciprocal (reciprocal.rs), u64 = mod B
Recip2(d) ==
  LET d1 == d \div B  d0 == d % B
      v0 == Recip(d1)
      p0 == (((d1 * v0) % B) + d0) % B
      a1 == p0 < d0                                  \* adjustment 1
      v1 == IF a1 THEN WSub(v0, 1, B) ELSE v0
      a2 == a1 /\ p0 >= d1                           \* adjustment 2
      v2 == IF a2 THEN WSub(v1, 1, B) ELSE v1
      p1 == IF a1 THEN WSub(IF a2 THEN WSub(p0, d1, B) ELSE p0, d1, B) ELSE p0
      t == v2 * d0
      t1 == t \div B  t0 == t % B
      p2 == (p1 + t1) % B
      a3 == p2 < t1                                  \* adjustment 3
      v3 == IF a3 THEN WSub(v2, 1, B) ELSE v2
      a4 == a3 /\ (p2 * B + t0 >= d)                 \* adjustment 4
      v4 == IF a4 THEN WSub(v3, 1, B) ELSE v3
  IN [v |-> v4, adj |-> <<a1, a2, a3, a4>>]
\* div_2x1_mg10(u, d, v): u < d*B, d >= B/2
Div2x1(u, d, v) ==
  LET q == (u + (u \div B) * v) % BB
      q0 == q % B
      q1 == ((q \div B) + 1) % B
      r == WSub(u % B, (q1 * d) % B, B)
      c1 == r > q0
      q1b == IF c1 THEN WSub(q1, 1, B) ELSE q1
      rb == IF c1 THEN (r + d) % B ELSE r
      c2 == rb >= d
  IN [q |-> IF c2 THEN (q1b + 1) % B ELSE q1b, r |-> IF c2 THEN WSub(rb, d, B) ELSE rb, dec |-> c1, inc |-> c2]
\* div_3x2_mg10(u21, u0, d, v): u21 < d, d >= BB/2
Div3x2(u21, u0, d, v) ==
  LET q == ((u21 \div B) * v + u21) % BB
      qh == q \div B   ql == q % B
      r1 == WSub(u21 % B, (qh * (d \div B)) % B, B)
      t == (d % B) * qh
      r0 == WSub(WSub(r1 * B + u0, t % BB, BB), d, BB)
      q1 == (qh + 1) % B
      c1 == (r0 \div B) >= ql
      q2 == IF c1 THEN WSub(q1, 1, B) ELSE q1
      r2 == IF c1 THEN (r0 + d) % BB ELSE r0
      c2 == r2 >= d
  IN [q |-> IF c2 THEN (q2 + 1) % B ELSE q2, r |-> IF c2 THEN WSub(r2, d, BB) ELSE r2, dec |-> c1, inc |-> c2]
====
