---- MODULE Div ----
(* Layer 2: the slice-level entry point `algorithms::div(numerator, divisor)` (div/mod.rs) with its dispatch and
   the one- and two-limb divisor paths of small.rs, limb width W as a constant:
     trim the divisor, trim the numerator (zero numerator => remainder 0), numerator shorter than the divisor
     (quotient 0, remainder = numerator, zero padding), 1x1, div_nx1 / div_nx2 -- each with the normalised loop
     (shift = 0) and the un-normalised loop that shifts the numerator limbs on the fly and un-shifts the remainder --
     one quotient limb per transition, digit steps by the Moller-Granlund operators of MG10Ops with the
     reciprocals abstracted by their contracts;  divisors of three or more limbs go to div_nxm, which is the
     subject of Knuth.tla and is represented here by its contract.
   The quotient is written over the numerator, the remainder over the divisor, both zero-padded, as in the code.

   Contract  numerator' = N div D and divisor' = N mod D as whole slices
   Pre       the precondition of every digit step holds when it is taken (running remainder below the divisor)  *)
EXTENDS MG10Ops, Sequences, TLC
CONSTANTS NL, DL          \* slice lengths
VARIABLES num, dv, N0, D0, pc, i, rem, shift, dn, nlen, dlen, pre
vars == <<num, dv, N0, D0, pc, i, rem, shift, dn, nlen, dlen, pre>>
RECURSIVE Val(_)
Val(s) == IF s = <<>> THEN 0 ELSE s[1] + B * Val(Tail(s))
LastNZ(s) == IF \E k \in 1..Len(s) : s[k] # 0 THEN CHOOSE k \in 1..Len(s) : s[k] # 0 /\ \A j \in (k + 1)..Len(s) : s[j] = 0 ELSE 0
RECURSIVE Lz(_, _)
Lz(x, bits) == IF bits = 0 \/ x >= 2^(bits - 1) THEN 0 ELSE 1 + Lz(x, bits - 1)      \* leading zeros in a `bits`-bit word
Zeros(k) == [j \in 1..k |-> 0]
RECURSIVE ToLimbs(_, _)
ToLimbs(v, k) == IF k = 0 THEN <<>> ELSE <<v % B>> \o ToLimbs(v \div B, k - 1)
Init ==
  /\ num \in [1..NL -> 0..(B - 1)]
  /\ dv \in [1..DL -> 0..(B - 1)] /\ \E k \in 1..DL : dv[k] # 0          \* "Divisor is zero" panics
  /\ N0 = Val(num) /\ D0 = Val(dv)
  /\ pc = "dispatch" /\ i = 0 /\ rem = 0 /\ shift = 0 /\ dn = 0 /\ nlen = 0 /\ dlen = 0 /\ pre = TRUE
Dispatch ==
  /\ pc = "dispatch"
  /\ LET dl == LastNZ(dv)  nl == LastNZ(num) IN
     /\ dlen' = dl /\ nlen' = nl
     /\ IF nl = 0 THEN /\ dv' = Zeros(DL) /\ pc' = "done" /\ UNCHANGED <<num, i, rem, shift, dn>>
        ELSE IF nl < dl
        THEN /\ dv' = [j \in 1..DL |-> IF j <= nl THEN num[j] ELSE IF j <= dl THEN 0 ELSE dv[j]]
             /\ num' = [j \in 1..NL |-> IF j <= nl THEN 0 ELSE num[j]]
             /\ pc' = "done" /\ UNCHANGED <<i, rem, shift, dn>>
        ELSE IF dl = 1 /\ nl = 1
        THEN /\ num' = [num EXCEPT ![1] = num[1] \div dv[1]] /\ dv' = [dv EXCEPT ![1] = num[1] % dv[1]]
             /\ pc' = "done" /\ UNCHANGED <<i, rem, shift, dn>>
        ELSE IF dl <= 2
        THEN LET d == IF dl = 1 THEN dv[1] ELSE dv[1] + B * dv[2]
                 s == Lz(IF dl = 1 THEN dv[1] ELSE dv[2], W)
             IN /\ shift' = s /\ dn' = d * 2^s
                /\ IF s = 0 THEN rem' = 0 /\ i' = nl                     \* normalised loop: every limb
                   ELSE rem' = num[nl] \div 2^(W - s) /\ i' = nl          \* un-normalised: top limb's spill first
                /\ pc' = (IF dl = 1 THEN "nx1" ELSE "nx2") /\ UNCHANGED <<num, dv>>
        ELSE \* div_nxm (Knuth.tla): contract
             /\ num' = [j \in 1..NL |-> IF j <= nl THEN ToLimbs(N0 \div D0, nl)[j] ELSE num[j]]
             /\ dv' = [j \in 1..DL |-> IF j <= dl THEN ToLimbs(N0 % D0, dl)[j] ELSE dv[j]]
             /\ pc' = "done" /\ UNCHANGED <<i, rem, shift, dn>>
  /\ UNCHANGED <<N0, D0, pre>>
\* the limb fed to the digit step at position k (1-based), shifted on the fly in the un-normalised loops
Window(k) == IF shift = 0 THEN num[k]
             ELSE ((num[k] * 2^shift) % B) + (IF k > 1 THEN num[k - 1] \div 2^(W - shift) ELSE 0)
Nx1 ==
  /\ pc = "nx1"
  /\ IF i >= 1
     THEN LET u == rem * B + Window(i)
              r == Div2x1(u, dn, Recip(dn))
          IN /\ pre' = (pre /\ rem < dn)
             /\ num' = [num EXCEPT ![i] = r.q] /\ rem' = r.r /\ i' = i - 1
             /\ UNCHANGED <<dv, pc>>
     ELSE /\ dv' = [dv EXCEPT ![1] = rem \div 2^shift]                  \* un-normalise the remainder
          /\ pc' = "done" /\ UNCHANGED <<num, rem, i, pre>>
  /\ UNCHANGED <<N0, D0, shift, dn, nlen, dlen>>
Nx2 ==
  /\ pc = "nx2"
  /\ IF i >= 1
     THEN LET r == Div3x2(rem, Window(i), dn, Recip2Contract(dn))
          IN /\ pre' = (pre /\ rem < dn)
             /\ num' = [num EXCEPT ![i] = r.q] /\ rem' = r.r /\ i' = i - 1
             /\ UNCHANGED <<dv, pc>>
     ELSE LET r == rem \div 2^shift IN
          /\ dv' = [dv EXCEPT ![1] = r % B, ![2] = r \div B]
          /\ pc' = "done" /\ UNCHANGED <<num, rem, i, pre>>
  /\ UNCHANGED <<N0, D0, shift, dn, nlen, dlen>>
Next == Dispatch \/ Nx1 \/ Nx2
Spec == Init /\ [][Next]_vars
Contract == pc = "done" => Val(num) = N0 \div D0 /\ Val(dv) = N0 % D0
Pre == pre
\* the un-normalised loops must write the top quotient limb too: in the code the first digit step of the loop is at
\* the top limb with the spill as the high word; check that no quotient limb above the loop range is left stale
TopLimb == pc \in {"nx1", "nx2"} /\ i = 0 => Val(num) = N0 \div D0
====
