---- MODULE Fmt ----
(* Layer 2: the digit writer of fmt.rs (`write_digits!`): the value is cut into chunks of K digits by
   to_base_be(R^K) (code: 2^63 / 8^21 / 10^19 / 16^15 -- the largest power of the radix that fits a limb), the
   first chunk is written unpadded, every later chunk zero-padded to K digits, into a stack buffer of BITS bytes.
   Radix R in {2, 8, 10, 16}, K a constant, every width 1..NMAX and every value; one chunk per transition.

   Contract   the text is exactly the radix-R numeral of the value ("0" for zero)
   Fits       the buffer of BITS bytes never overflows (the code unwraps the write)
   Chunks     every chunk is below R^K and only the first may be short; an all-zero INNER chunk is K zeros  *)
EXTENDS Naturals, Sequences, TLC
CONSTANTS NMAX, K
VARIABLES n, R, v, rest, text, first, pc
vars == <<n, R, v, rest, text, first, pc>>
RECURSIVE DigitsBE(_, _)
DigitsBE(x, r) == IF x = 0 THEN <<>> ELSE Append(DigitsBE(x \div r, r), x % r)
RECURSIVE Pad(_, _)
Pad(s, k) == IF Len(s) >= k THEN s ELSE Pad(<<0>> \o s, k)
Init ==
  /\ n \in 1..NMAX /\ R \in {2, 8, 10, 16} /\ v \in 0..(2^n - 1)
  /\ rest = DigitsBE(v, R^K)                      \* to_base_be(MAX): most significant chunk first
  /\ first = TRUE
  /\ IF v = 0 THEN text = <<0>> /\ pc = "done" ELSE text = <<>> /\ pc = "write"
WriteChunk ==
  /\ pc = "write"
  /\ IF rest = <<>> THEN pc' = "done" /\ UNCHANGED <<text, rest, first>>
     ELSE /\ text' = text \o (IF first THEN DigitsBE(Head(rest), R) ELSE Pad(DigitsBE(Head(rest), R), K))
          /\ rest' = Tail(rest) /\ first' = FALSE /\ UNCHANGED pc
  /\ UNCHANGED <<n, R, v>>
Next == WriteChunk
Spec == Init /\ [][Next]_vars
Contract == pc = "done" => text = (IF v = 0 THEN <<0>> ELSE DigitsBE(v, R))
Fits == Len(text) <= n
Chunks == \A i \in 1..Len(rest) : rest[i] < R^K
====
