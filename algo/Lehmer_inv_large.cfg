SPECIFICATION Spec
CONSTANTS
  H = 2
  TMAX = 0
  NB = 10
  MODE = "inv"
INVARIANT Contract
INVARIANT Packed
INVARIANT LoopInv
PROPERTY Progress
CHECK_DEADLOCK FALSE
