---- MODULE AddMul ----
(* Layer 2: algorithms::addmul (mul.rs) with the limb width W as a constant: zero trimming at both ends of both
   operands (advancing the accumulator window for low zero limbs), the swap so that the longer operand is the
   inner loop, the truncated-row path when the window is shorter than the operand, and the overflow flag.
   Every accumulator / operand content of lengths 0..MAXLEN is explored; Contract is the C15 statement:
   acc' = (acc + a*b) mod B^len(acc), flag = (acc + a*b >= B^len(acc)). *)
EXTENDS Naturals, Sequences, TLC
CONSTANTS W, MAXLEN
B == 2^W
RECURSIVE Val(_, _)
Val(x, n) == IF n = 0 THEN 0 ELSE x[n] * B^(n - 1) + Val(x, n - 1)
\* number of low / high zero limbs
RECURSIVE LowZ(_, _)
LowZ(x, i) == IF i > Len(x) \/ x[i] # 0 THEN i - 1 ELSE LowZ(x, i + 1)
RECURSIVE HighZ(_, _)
HighZ(x, i) == IF i < 1 \/ x[i] # 0 THEN Len(x) - i ELSE HighZ(x, i - 1)
Trimmed(x) == LET lo == LowZ(x, 1) IN IF lo = Len(x) THEN <<>> ELSE SubSeq(x, lo + 1, Len(x) - HighZ(x, Len(x)))
\* addmul_nx1 on a window: lhs[off+1 .. off+n] += a[1..n] * b, returns <<lhs, carry>>
AddMulNx1(lhs, off, a, n, b) ==
  LET RECURSIVE F(_, _, _)
      F(i, l, c) == IF i > n THEN <<l, c>>
                    ELSE LET t == a[i] * b + c + l[off + i] IN F(i + 1, [l EXCEPT ![off + i] = t % B], t \div B)
  IN F(1, lhs, 0)
\* add_nx1 on lhs[off+1 ..]: returns <<lhs, carry>>
AddNx1(lhs, off, c0) ==
  LET RECURSIVE F(_, _, _)
      F(i, l, c) == IF c = 0 \/ i > Len(l) THEN <<l, c>>
                    ELSE LET t == l[i] + c IN F(i + 1, [l EXCEPT ![i] = t % B], t \div B)
  IN F(off + 1, lhs, c0)
AddMul(acc, a0, b0) ==
  LET skip == LowZ(a0, 1) + LowZ(b0, 1)                 \* low zero limbs advance the window
      a1 == Trimmed(a0)  b1 == Trimmed(b0)
  IN IF Len(a1) = 0 \/ Len(b1) = 0 THEN [acc |-> acc, ov |-> FALSE, path |-> "empty"]
     ELSE IF skip >= Len(acc) THEN [acc |-> acc, ov |-> TRUE, path |-> "exhausted"]
     ELSE LET a == IF Len(b1) > Len(a1) THEN b1 ELSE a1
              b == IF Len(b1) > Len(a1) THEN a1 ELSE b1
              RECURSIVE Row(_, _, _, _)
              Row(j, l, ov, trunc) ==          \* j: 1-based limb of b; window starts at skip + j - 1
                IF j > Len(b) THEN [acc |-> l, ov |-> ov, path |-> IF trunc THEN "truncated" ELSE "full"]
                ELSE LET off == skip + j - 1  room == Len(l) - off IN
                     IF room >= Len(a)
                     THEN LET r1 == AddMulNx1(l, off, a, Len(a), b[j])
                              r2 == AddNx1(r1[1], off + Len(a), r1[2])
                          IN Row(j + 1, r2[1], ov \/ r2[2] # 0, trunc)
                     ELSE IF room <= 0 THEN [acc |-> l, ov |-> TRUE, path |-> "truncated"]
                     ELSE Row(j + 1, AddMulNx1(l, off, a, room, b[j])[1], TRUE, TRUE)
          IN Row(1, acc, FALSE, FALSE)
VARIABLES acc, a, b, done, out
Lens == 0..MAXLEN
Init == /\ \E lc \in Lens, la \in Lens, lb \in Lens :
             acc \in [1..lc -> 0..(B - 1)] /\ a \in [1..la -> 0..(B - 1)] /\ b \in [1..lb -> 0..(B - 1)]
        /\ done = FALSE /\ out = <<>>
Next == ~done /\ done' = TRUE /\ out' = AddMul(acc, a, b) /\ UNCHANGED <<acc, a, b>>
Spec == Init /\ [][Next]_<<acc, a, b, done, out>>
Total == Val(acc, Len(acc)) + Val(a, Len(a)) * Val(b, Len(b))
Contract == done => /\ Val(out.acc, Len(acc)) = Total % B^Len(acc)
                    /\ out.ov = (Total >= B^Len(acc))
\* reachability of each path (run with these as invariants to obtain witnesses)
NoTruncated == done => out.path # "truncated"
NoExhausted == done => out.path # "exhausted"
====
